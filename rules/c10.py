"""C10 — blocklisted items are referenced but never defined; opaque types are exact blobs."""
import re

from engine import RuleSet
from hir import strip, pat_variants
import qq

RULES = RuleSet("C10", "§3 C10",
                not_decided=["that the blob has the size/alignment the C compiler computes (clang's numbers)",
                             "layout arithmetic of types that contain an opaque type (see C02); the fix-point side is decided under C07 R7.1"])

CG = "codegen::CodeGenerator"
OPTS = "options::BindgenOptions"
ITEMKIND = "ir::item_kind::ItemKind::"
IS_OPAQUE = "IsOpaque>::is_opaque"
ITEM_PAYLOADS = {"ir::function::Function", "ir::var::Var", "ir::ty::Type", "ir::module::Module"}


def early_exit_on(b, call, what):
    """Is `call` dominated by `if !<what>(..) { return }` (i.e. guard chain holds <what> positively)?"""
    for a, pol, _ in qq.guard_atoms(b, call):
        if what in a and pol:
            return True
    return False


@RULES.rule("R10.1", "no item payload is generated without passing process_before_codegen (which rejects blocklisted items)", floor=7)
def r10_1(rep):
    prog = rep.prog
    pb = rep.need(prog.fn("codegen::<impl ir::item::Item>::process_before_codegen"), "Item::process_before_codegen")
    # the function says `true` only for items that are not blocklisted
    trues = [n for n in pb.walk() if n["k"] == "Lit" and n.get("v") is True and not pb.macro_name(n) and
             (pb.parent[n["_i"]]["k"] in ("Block", "Ret"))]
    rep.check(bool(trues), "pbc-true-site", "process_before_codegen has a `true` exit", pb.loc(pb.root))
    for t in trues:
        atoms = qq.guard_atoms(pb, t)
        rep.check(qq.has_atom(atoms, "Item::is_blocklisted", False), "pbc-rejects-blocklisted",
                  "`true` is returned only when `is_blocklisted` is false", pb.loc(t))
        rep.check(qq.has_atom(atoms, "is_enabled_for_codegen", True), "pbc-requires-enabled",
                  "`true` is returned only when the item is enabled for codegen", pb.loc(t))
    # every dispatch to the generator of an item payload is dominated by the check
    n = 0
    for b in prog.bodies.values():
        for c in b.calls(lambda x: x["k"] == "MCall" and x.get("trait") == CG and x["name"] == "codegen"):
            rt = prog.types[c["rt"]]
            if rt not in ITEM_PAYLOADS:
                continue
            n += 1
            key = "dispatch:%s@%s" % (rt.split("::")[-1], b.path.split("::")[-1] if "<" not in b.path else re.sub(r".*<(.*?) as.*", r"\1", b.path).split("::")[-1])
            rep.check(early_exit_on(b, c, "process_before_codegen"), key,
                      "`<%s as CodeGenerator>::codegen` is reached only after `process_before_codegen` returned true" % rt, b.loc(c))
    rep.check(n >= 5, "dispatch-sites", "%d dispatch sites to item payload generators" % n)


@RULES.rule("R10.2", "is_blocklisted consults the regex set of the item's own kind", floor=6)
def r10_2(rep):
    prog = rep.prog
    b = rep.need(prog.fn("ir::item::Item::is_blocklisted"), "Item::is_blocklisted")
    want = {"Type": "blocklisted_types", "Function": "blocklisted_functions", "Var": "blocklisted_vars"}
    seen = {}
    for c in b.calls(lambda n: n["k"] == "MCall" and n["name"] == "matches" and "RegexSet" in (n.get("callee") or "")):
        r = strip(c["recv"])
        f = r["f"] if r.get("k") == "Field" and r.get("adt") == OPTS else None
        ks = None
        for pol, kind, payload in b.guards(c):
            if kind == "arm":
                m, i = payload
                vs = {v[len(ITEMKIND):] for v in pat_variants(m["arms"][i]["pat"]) if v.startswith(ITEMKIND)}
                if vs:
                    ks = vs if ks is None else ks & vs
        seen.setdefault(f, []).append(ks)
    for kind, field in want.items():
        rep.check(any(ks == {kind} for ks in seen.get(field, [])), "blocklist:%s" % kind,
                  "%s items are tested against `%s` (found under %s)" % (kind, field, seen.get(field)), b.loc(b.root))
        rep.check(all(ks == {kind} for ks in seen.get(field, [None])), "blocklist-only:%s" % field,
                  "`%s` is consulted only for %s items" % (field, kind), b.loc(b.root))
    rep.check(any(ks is None for ks in seen.get("blocklisted_items", [])), "blocklist:any-item",
              "`blocklisted_items` is tested for every kind", b.loc(b.root))
    rep.check(bool(seen.get("blocklisted_files")), "blocklist:file", "`blocklisted_files` is tested against the item's file", b.loc(b.root))
    # the hide annotation
    rets = [n for n in b.walk() if n["k"] == "Ret" and strip(n.get("e", {})).get("v") is True]
    rep.check(any(qq.has_atom(qq.guard_atoms(b, r), "Annotations::hide", True) for r in rets), "blocklist:hide-annotation",
              "items annotated `hide` are blocklisted", b.loc(b.root))


@RULES.rule("R10.3", "an opaque composite exposes no field, base, vtable or accessor; only the blob", floor=7)
def r10_3(rep):
    prog = rep.prog
    b = rep.need(prog.impl_fn(CG, "ir::comp::CompInfo", "codegen"), "<CompInfo as CodeGenerator>::codegen")

    def not_opaque(n):
        return qq.has_atom(qq.guard_atoms(b, n), IS_OPAQUE, False)

    def opaque(n):
        return qq.has_atom(qq.guard_atoms(b, n), IS_OPAQUE, True)

    fc = [c for c in b.calls(lambda x: x["k"] == "MCall" and x.get("trait") == "codegen::FieldCodegen")]
    rep.need(fc, "FieldCodegen::codegen call in CompInfo::codegen")
    for c in fc:
        rep.check(not_opaque(c), "fields-not-for-opaque", "fields (and their accessors) are generated only when the item is not opaque", b.loc(c))
    loops = [n for n in b.walk() if n["k"] == "For" and "CompInfo::base_members" in b.canon(n["iter"], 4)]
    rep.need(loops, "loop over base_members in CompInfo::codegen")
    emitting = [l for l in loops if any(x["k"] == "MCall" and x["name"] in ("push", "saw_base") for x in b.walk(l["body"]))]
    for l in emitting:
        rep.check(not_opaque(l), "bases-not-for-opaque", "base-member fields are generated only when the item is not opaque", b.loc(l))
    vt = [c for c in b.calls(lambda x: x["k"] == "MCall" and x.get("trait") == CG and "Vtable" in prog.types[x["rt"]])]
    rep.need(vt, "vtable.codegen call")
    for c in vt:
        rep.check(not_opaque(c), "vtable-not-for-opaque", "the vtable type/field is generated only when the item is not opaque", b.loc(c))
    pads = [c for c in b.calls(lambda x: x["k"] == "MCall" and x["name"] in ("add_tail_padding", "pad_struct"))]
    for c in pads:
        rep.check(not_opaque(c), "padding-not-for-opaque:" + c["name"], "explicit padding is computed only for non-opaque items", b.loc(c))
    blobs = [q for q in qq.quote_sites(b) if "_bindgen_opaque_blob" in q.tokens]
    rep.check(len(blobs) == 1, "blob-site", "one `_bindgen_opaque_blob` emission (found %d)" % len(blobs), b.loc(b.root))
    for q in blobs:
        rep.check(opaque(q.root), "blob-iff-opaque", "the blob field is emitted for opaque items", q.loc())
        ty = q.interps().get("ty")
        src = b.canon(ty, 8) if ty else ""
        rep.check("codegen::helpers::blob(" in src, "blob-type", "the blob type comes from helpers::blob (%s)" % src[:80], q.loc())
        # ... of the item's own layout
        own = False
        tyinit = strip(b.local_init(ty["id"])) if ty is not None and b.local_init(ty["id"]) is not None else None
        if tyinit is not None and tyinit.get("k") == "Call" and len(tyinit.get("args", [])) >= 2:
            lsrc = b.canon(tyinit["args"][1], 8)
            own = re.fullmatch(r"(match\()?ir::ty::Type::layout\(.*param:item.*\)\)?~[\w:]*Some\.0", lsrc) is not None
            src = lsrc
        rep.check(own, "blob-own-layout", "the blob is built from the layout of the item itself (%s)" % src[:140], q.loc())
    # explicit alignment of the opaque struct is the layout's alignment
    al = [n for n in b.walk() if n["k"] == "Assign" and strip(n["l"]).get("k") == "Local" and
          (b.ty(n["l"]) or "").replace("&", "") == "std::option::Option<usize>" and opaque(n)]
    rep.check(any("Layout::align" in b.canon(n["r"], 6) for n in al), "blob-align", "an opaque item is aligned to its own layout.align", b.loc(b.root))
    # ... and that alignment is the only layout attribute of the blob: `repr(packed)` next to `repr(align(N))` is rejected (E0587),
    # and the packed test (`already_packed`) walks the real C fields, which the blob does not have
    pk = [c for c in b.calls(lambda x: x["k"] == "Call" and (x.get("callee") or "").endswith("attributes::repr_list"))
          if any(y["k"] == "Lit" and isinstance(y.get("v"), str) and "packed" in y["v"] for y in b.walk(c)) or
          any(y["k"] == "Local" and b.local_init(y["id"]) is not None and "packed" in b.canon(b.local_init(y["id"]), 6) for y in b.walk(c))]
    rep.need(pk, "emission of `repr(C, packed..)` in CompInfo::codegen")
    for c in pk:
        rep.check(not_opaque(c), "packed-not-for-opaque", "`repr(C, packed)` is only written for non-opaque items (the blob carries `repr(align(N))`)", b.loc(c))


@RULES.rule("R10.4", "traits are not derived through a non-allowlisted (blocklisted) type unless the user vouches", floor=4)
def r10_4(rep):
    prog = rep.prog
    ct = None
    for b in prog.bodies.values():
        if b.path.endswith("::constrain_type") and "CannotDerive" in b.path:
            ct = b
    rep.need(ct, "CannotDerive::constrain_type")
    calls = [c for c in ct.calls(lambda x: x["k"] == "MCall" and x["name"] == "blocklisted_type_implements_trait")]
    rep.need(calls, "call of blocklisted_type_implements_trait")
    c = calls[0]
    atoms = qq.guard_atoms(ct, c)
    rep.check(len(atoms) == 1 and "allowlisted_items" in atoms[0][0] and "contains" in atoms[0][0] and atoms[0][1] is False,
              "blocklisted-first", "the callback answer is used exactly when the item is not allowlisted (%s)" % [(a[:60], p) for a, p, _ in atoms], ct.loc(c))
    # the answer is returned, and nothing precedes the test
    first = None
    for st in ct.root["stmts"]:
        e = st.get("e")
        if e is not None and ct.macro_name(e) in ("trace", "debug"):
            continue
        first = st
        break
    ok_first = first is not None and first.get("e", {}).get("k") == "If" and any(x is c for x in ct.walk(first["e"]))
    rep.check(ok_first, "blocklisted-before-anything", "the non-allowlisted test is the first statement of constrain_type", ct.loc(c))
    rets = [n for n in ct.walk(first["e"]) if n["k"] == "Ret"] if ok_first else []
    rep.check(any(ct.canon(r["e"], 6) == ct.canon(c, 6) for r in rets if "e" in r), "blocklisted-answer-returned",
              "the callback answer is returned unchanged", ct.loc(c))
    # default answer of the context: No unless a callback vouches (or the stdint special case)
    bt = rep.need(prog.fn("ir::context::BindgenContext::blocklisted_type_implements_trait"), "BindgenContext::blocklisted_type_implements_trait")
    src = " ".join(bt.canon(n, 3) for n in bt.walk() if n["k"] in ("Path", "Call") and "CanDerive" in bt.canon(n, 2))
    defaults = [x for x in bt.calls(lambda x: x["k"] == "MCall" and x["name"] in ("unwrap_or", "unwrap_or_else", "unwrap_or_default"))]
    rep.check(any("CanDerive::No" in bt.canon(d["args"][0], 3) for d in defaults if d["args"]) and
              not any(d["name"] == "unwrap_or_default" for d in defaults), "blocklisted-default-no",
              "without an answer from a callback a blocklisted type is assumed not to implement the trait", bt.loc(bt.root))
    cb = [x for x in bt.calls(lambda x: x["k"] == "MCall" and x.get("trait") == "callbacks::ParseCallbacks" and x["name"] == "blocklisted_type_implements_trait")]
    rep.check(bool(cb), "blocklisted-asks-callback", "the user's callback is consulted", bt.loc(bt.root))


@RULES.rule("R10.5", "helpers::blob builds the blob from the requested size and alignment only", floor=6)
def r10_5(rep):
    prog = rep.prog
    b = rep.need(prog.fn("codegen::helpers::blob"), "helpers::blob")
    lay = "param:layout.ir::layout::Layout::"
    sites = qq.quote_sites(b)
    rep.need(sites, "parse_quote! sites in helpers::blob")
    n_arr = 0
    for q in sites:
        ip = q.interps()
        toks = q.tokens
        if "[" in toks and ";" in toks:
            n_arr += 1
            i = toks.index("[")
            elem, length = toks[i + 1], toks[toks.index(";", i) + 1]
            if elem == "u8":
                src = b.canon(ip[length[1:]], 6) if length[1:] in ip else length
                rep.check(src == lay + "size", "bytes-len@" + ("ns" if "root" in toks else "flat"),
                          "`[u8; N]`: N is layout.size (found %s)" % src, q.loc())
            else:
                tsrc = b.canon(ip[elem[1:]], 8) if elem[1:] in ip else elem
                lsrc = b.canon(ip[length[1:]], 8) if length[1:] in ip else length
                rep.check("Layout::known_type_for_size(" in tsrc and "Layout::align" in tsrc, "units-type@" + ("ns" if "root" in toks else "flat"),
                          "unit type is the integer of the alignment's size (%s)" % tsrc[:90], q.loc())
                rep.check(re.fullmatch(r"\(" + re.escape(lay) + r"size / .*Layout::align.*\)", lsrc) is not None,
                          "units-len@" + ("ns" if "root" in toks else "flat"), "unit count is layout.size / align (found %s)" % lsrc[:90], q.loc())
    rep.check(n_arr >= 4, "array-sites", "%d array-typed blob forms" % n_arr, b.loc(b.root))
    # the alignment wrapper is named after the alignment
    fi = [q for q in qq.quote_sites(b, {"format_ident", "quote::format_ident"})]
    for q in fi:
        src = " ".join(b.canon(v, 6) for v in b.walk(q.root) if v["k"] == "Local" and b.local_def.get(v["id"], [("",)])[0][0] == "let")
        rep.check("Layout::align" in src, "wrapper-named-by-align", "__BindgenOpaqueArray<N> is named after the alignment (%s)" % src[:80], q.loc())
    al = b.local_def
    aligns = [n for n in b.walk() if n["k"] == "Let" and n.get("init") is not None and b.canon(n["init"], 6).startswith("std::cmp::Ord::max(")]
    rep.check(bool(aligns) and b.canon(aligns[0]["init"], 6).startswith("std::cmp::Ord::max(" + lay + "align"), "align-source",
              "align is layout.align.max(1) (%s)" % (b.canon(aligns[0]["init"], 6) if aligns else "?"), b.loc(b.root))


@RULES.rule("R10.6", "user-supplied module raw lines (where definitions of blocklisted types go) are emitted whatever else the module holds", floor=4)
def r10_6(rep):
    """With --enable-cxx-namespaces the user supplies the definition of a blocklisted `ns::T` through
    `--module-raw-line root::ns ...`; if the module is dropped because nothing else in it is generated, every use of
    `root::ns::T` dangles (e.g. a namespace whose items are all blocklisted)."""
    prog = rep.prog
    b = rep.need(prog.impl_fn(CG, "ir::module::Module", "codegen"), "<Module as CodeGenerator>::codegen")
    pushes = [c for c in b.calls(lambda x: x["k"] == "MCall" and x["name"] in ("push", "extend", "append_all") and x["args"])
              if "TokenStream" in b.canon(c["args"][0], 6) and "from_str" in b.canon(c["args"][0], 6) and "module_lines" in b.canon(c["args"][0], 8)]
    rep.need(pushes, "the push of the module's raw lines")
    ALLOWED = ("enable_cxx_namespaces", "conservative_inline_namespaces", "Module::is_inline", "module_lines", "is_inline")
    for L in pushes:
        for a, pol, node in qq.guard_atoms(b, L):
            ok = any(x in a for x in ALLOWED)
            rep.check(ok, "raw-lines-unconditional", "the raw lines of a module are emitted independently of what else the module contains "
                      "(found condition `%s`)" % a[:120], b.loc(L))
    mods = [q for q in qq.quote_sites(b) if q.has("pub", "mod", "#ident")]
    rep.need(mods, "`pub mod #ident` emission")
    loops = [n for n in b.walk() if n["k"] == "For" and any(x is pushes[0] for x in b.walk(n["body"]))]
    for q in mods:
        for a, pol, node in qq.guard_atoms(b, q.root):
            if any(x in a for x in ALLOWED) or "root_module" in a:
                rep.ok("module-emitted:namespace-cond")
                continue
            node = strip(node)
            if node.get("k") == "Local" and node["id"] in (b.local_mut | b.local_assigned):
                # a flag: must be raised where the raw lines are pushed
                raised = [x for x in b.walk() if x["k"] == "Assign" and strip(x["l"]).get("id") == node["id"] and strip(x["r"]).get("v") is True
                          and loops and any(y is x for y in b.walk(loops[0]["body"]))]
                rep.check(bool(raised) and not pol is False or bool(raised), "module-emitted-when-raw-lines",
                          "the flag `%s` that decides whether the module is emitted is set when raw lines are pushed" % node["name"], q.loc())
            else:
                rep.bad("module-emitted-when-raw-lines", "the module emission depends on `%s`, which ignores the module's raw lines" % a[:120], q.loc())


@RULES.rule("R10.7", "spelled-out kinds are traced through even under an opaque pattern (shared with C09 R9.8)", floor=5)
def r10_7(rep):
    """With `--opaque-type '.*'` an array item's synthetic name is opaque too; if the trace stopped there the opaque element type
    would get no blob although `[Elem; 4]` still names it."""
    import c09
    c09.r9_8(rep)


@RULES.rule("R10.8", "the blob of an opaque item is built from that item's own layout", floor=2)
def r10_8(rep):
    """`typedef struct Quad AlignedQuad __attribute__((aligned(16)))` marked opaque must become a 16-aligned blob: the typedef's
    own clang layout, not the layout of the type it aliases."""
    prog = rep.prog
    n = 0
    for b in prog.bodies.values():
        if not b.path.startswith("<") or "codegen::CodeGenerator>::codegen" not in b.path:
            continue
        for c in b.calls(lambda x: x["k"] == "MCall" and x["name"] in ("to_opaque", "try_to_opaque") and (x.get("trait") or "").startswith("codegen::")):
            n += 1
            recv = b.canon(c["recv"], 4)
            extra = b.canon(c["args"][1], 4) if len(c["args"]) > 1 else ""
            own = recv in ("param:self", "param:item") and (extra in ("param:item", "()", "lit:None") or "param:item" in extra or extra == "")
            who = b.fact.get("impl_self", "?").split("::")[-1]
            rep.check(own, "own-layout-blob@%s" % who, "the blob of the item being generated comes from `self`/`item` (found receiver `%s`, extra `%s`)" %
                      (recv[:60], extra[:40]), b.loc(c))
    rep.check(n >= 1, "to-opaque-sites", "%d blob constructions inside CodeGenerator impls" % n)


@RULES.rule("R10.9", "a type outside the analysed set (blocklisted) does not read as zero-sized", floor=1)
def r10_9(rep):
    """The sizedness analysis visits allowlisted types only and stores nothing for its bottom value, so `lookup_sizedness` answers
    `ZeroSized` for every blocklisted type.  `Base::requires_storage` then drops a blocklisted base class: `struct D : Blocked {}`
    (Blocked is 8 bytes) is emitted as `{ _address: u8 }` and `struct E : Blocked { char c; }` replaces the base by padding, so the
    use of the blocklisted type is no longer named and the layout of D changes."""
    prog = rep.prog
    lk = rep.need(prog.fn("ir::context::BindgenContext::lookup_sizedness"), "BindgenContext::lookup_sizedness")
    src = " ".join((c.get("resolved") or c.get("callee") or "") for c in lk.calls())
    guarded = "allowlisted_items" in src or "codegen_items" in src or "Type::layout" in src or "is_blocklisted" in src
    # or the consumers that decide about storage look at the blocklist / layout themselves
    rs = prog.fn("ir::comp::Base::requires_storage")
    src2 = " ".join((c.get("resolved") or c.get("callee") or "") for c in rs.calls()) if rs is not None else ""
    guarded = guarded or "is_blocklisted" in src2 or "Type::layout" in src2
    rep.check(guarded, "sizedness:unanalysed-type-reads-as-zero-sized@lookup_sizedness",
              "lookup_sizedness answers `ZeroSized` for any type without an entry, including blocklisted types the analysis never visits; "
              "nothing on the way to `Base::requires_storage` checks the blocklist or the layout", lk.loc(lk.root))


@RULES.rule("R10.10", "facts that flow THROUGH an opaque type (vtable, destructor, floats) still re-queue its users (shared with C07 R7.1)", floor=40)
def r10_10(rep):
    """An opaque type is a blob, but what the blob hides still decides facts about the types built on it: a class deriving from an
    opaque class that inherits a vptr must not get a second `vtable_`.  The analyses read those innards for opaque items, so the
    dependency edges have to exist for every way an item can be opaque — also `--opaque-type` / the annotation, which only
    `Item::is_opaque` knows (`Type::is_opaque` does not): with the weaker test `D : Mid(opaque) : Base(virtual)` gets a spurious
    `vtable_` and size 32 instead of 24."""
    import c07
    c07.r7_1(rep)


DEFINING_KINDS_EXEMPT = {
    "ObjCInterface": "an Objective-C interface is emitted as a handle type and a trait, never with its instance layout",
    "BlockPointer": "a block typedef is a type alias to a pointer; it has no members to hide",
    "TemplateInstantiation": "an instantiation emits layout assertions only; the definition's own arm decides about opacity",
    "ObjCSel": "Objective-C builtin (`SEL`): only a marker that the `objc` prelude is needed",
    "ObjCId": "Objective-C builtin (`id`): only a marker that the `objc` prelude is needed",
}


@RULES.rule("R10.11", "every kind of type that gets a definition honours `opaque`", floor=4)
def r10_11(rep):
    """`--opaque-type X` / the `opaque` annotation promise a member-less blob.  `Type::codegen` dispatches per kind; each arm that
    emits a definition has to ask `item.is_opaque(..)` itself or hand over to a generator that does (CompInfo, the alias arm).
    The enum arm does neither: `--opaque-type E` for `enum E { A, B }` still emits the enumerators and the type as usual."""
    from hir import pat_variants as _pv
    prog = rep.prog
    tb = rep.need(prog.impl_fn(CG, "ir::ty::Type", "codegen"), "<Type as CodeGenerator>::codegen")
    ms = [m for m in tb.nodes if m["k"] == "Match" and (tb.ty(m["scrut"]) or "").replace("&", "").endswith("TypeKind")]
    rep.need(ms, "match on the type kind in Type::codegen")
    m = ms[0]
    n = 0
    for a in m["arms"]:
        kinds = [v.split("::")[-1] for v in _pv(a["pat"]) if v.startswith("ir::ty::TypeKind::")]
        body = a["body"]
        emits = any(x["k"] in ("Call", "MCall") and not tb.macro_name(x) for x in tb.walk(body))
        if not kinds or not emits:
            continue
        n += 1
        key = "opaque-honoured:" + "|".join(kinds)
        if all(k in DEFINING_KINDS_EXEMPT for k in kinds):
            rep.ok(key, "exempt: " + DEFINING_KINDS_EXEMPT[kinds[0]], tb.loc(body))
            continue
        asks = any(x["k"] == "MCall" and x.get("name") == "is_opaque" for x in tb.walk(body))
        if not asks:
            # delegated generator asks?
            for c in tb.calls(lambda x: x["k"] == "MCall" and x.get("trait") == CG, body):
                cb = prog.fn(str(c.get("resolved") or ""))
                if cb is not None and any(x["k"] == "MCall" and x.get("name") == "is_opaque" for x in cb.nodes):
                    asks = True
        rep.check(asks, key, "the arm (or the generator it delegates to) asks item.is_opaque" if asks else
                  "neither the %s arm nor the generator it calls looks at `is_opaque`: a type of this kind marked opaque is emitted in full" % "|".join(kinds),
                  tb.loc(body))
    rep.need(n >= 4, "defining arms of Type::codegen (Comp, Alias, Enum, ..)")


@RULES.rule("R10.12", "a pattern with a top-level `|` is anchored as a whole (shared with C09 R9.4)", floor=30)
def r10_12(rep):
    """`--blocklist-type 'Vec|Mat'` must hide exactly `Vec` and `Mat`.  Anchoring the pattern as `^Vec|Mat$` instead of `^(Vec|Mat)$`
    also hides `VecPair` and `AffineMat`, which are then named and never defined (seeded change).  Same rule instance as R9.4."""
    import c09
    c09.r9_4(rep)


@RULES.rule("R10.13", "what a blocklisted item refers to stays part of the closure (shared with C09 R9.6)", floor=17)
def r10_13(rep):
    """A use of a blocklisted template still spells its arguments (`RefPtr<Payload>`); the instantiation counts as blocklisted because
    its name is the template's.  The codegen traversal must walk through it, so `codegen_edges` may only look at the edge kind:
    refusing edges into blocklisted items dropped `Payload` from the bindings in a seeded change (E0425)."""
    import c09
    c09.r9_6(rep)


@RULES.rule("R10.14", "`--flexarray-dst` never gives an opaque type, or a use of one, the `FAM` parameter", floor=4)
def r10_14(rep):
    """An opaque struct is a blob: it has no flexible array member to be generic over.  Three places decide about the `FAM` parameter
    and each has to look at opacity first: the definition (`CompInfo::codegen`), the use as the last member of another struct
    (`FieldData::codegen`, `#ty<FAM>`), and the search for a nested flexible array (`CompFields::flex_array_member`).  Before the fix
    `struct Inner { int len; char data[]; }` with `--opaque-type Inner --flexarray-dst` was `pub struct Inner<FAM: ?Sized = ..> {
    _bindgen_opaque_blob: u32 }` (E0392) and `struct Outer { int tag; struct Inner in; }` carried `in_: Inner<FAM>`."""
    import qq
    prog = rep.prog

    def opaque_negated(b, node):
        for a, pol, g in qq.guard_atoms(b, node):
            if not pol and "is_opaque" in a:
                return True
            if not pol and strip(g).get("k") == "Local":
                init = b.local_init(strip(g)["id"])
                if init is not None and "is_opaque" in b.canon(init, 6):
                    return True
        return False
    # (a) the definition
    b = rep.need(prog.impl_fn("codegen::CodeGenerator", "ir::comp::CompInfo", "codegen"), "<CompInfo as CodeGenerator>::codegen")
    calls = b.calls(lambda x: x["k"] == "MCall" and (x.get("callee") or x.get("resolved") or "").endswith("CompInfo::flex_array_member"))
    rep.need(calls, "CompInfo::codegen asks flex_array_member")
    for c in calls:
        ok = opaque_negated(b, c)
        rep.check(ok, "fam-not-for-opaque@CompInfo::codegen", "asked only for non-opaque items" if ok else
                  "the FAM generic of the definition is decided without looking at `is_opaque`: the blob of an opaque struct gets an unused "
                  "type parameter (E0392)", b.loc(c))
    # (b) the use
    n = 0
    for p, fb in sorted(prog.bodies.items()):
        if "codegen" not in p:
            continue
        for q in qq.quote_sites(fb):
            t_ = q.tokens
            if any(t_[i].startswith("#") and t_[i + 1] == "<" and t_[i + 2] == "FAM" for i in range(len(t_) - 2)):
                n += 1
                ok = opaque_negated(fb, q.root)
                rep.check(ok, "fam-not-for-opaque@use%s" % ("" if n == 1 else "#%d" % (n - 1)), "the member type is parameterised only when it is not opaque" if ok else
                          "`#ty<FAM>` is written for a member whose type may be opaque: the blob takes no generic argument (E0107)", q.loc())
    rep.need(n >= 1, "`#ty<FAM>` emission sites")
    # (c) the search
    fm = rep.need(prog.fn("ir::comp::CompFields::flex_array_member"), "CompFields::flex_array_member")
    rec = [c for c in fm.calls(lambda x: x["k"] == "MCall" and (x.get("callee") or x.get("resolved") or "").endswith("CompInfo::flex_array_member"))]
    rep.need(rec, "the nested search in CompFields::flex_array_member")
    for c in rec:
        ok = opaque_negated(fm, c)
        rep.check(ok, "fam-not-for-opaque@flex_array_member", "an opaque member type ends the search" if ok else
                  "the nested search descends into a member type without asking whether it is opaque", fm.loc(c))


@RULES.rule("R10.15", "the hand-written Debug impl asks at every step whether the type was vouched for (shared with C08 R8.14)", floor=4)
def r10_15(rep):
    """`Item::impl_debug` recurses through typedefs, references and array elements.  The question "is this item allowlisted" has to
    be asked inside that recursion: asked once for the member's own type, `typedef struct Blocked blocked_t; struct S { blocked_t t; }`
    and `struct Blocked arr[2]` reach the blocklisted struct unchecked and `impl Debug for S` needs `Blocked: Debug` (seeded change)."""
    import c08
    c08.r8_14(rep)


@RULES.rule("R10.16", "`--opaque-type` patterns are matched for every item, whatever its kind or name", floor=1)
def r10_16(rep):
    """`Item::is_opaque` is `annotation || type says so || opaque_by_name(path)`.  The path of an anonymous struct
    (`ns::S__bindgen_ty_1`) is matched by `--opaque-type 'ns::.*'` like any other; restricting the by-name test (to types with a name
    of their own, say) lets the anonymous members of an opaque class come out with all their fields and bit-field accessors
    (seeded change)."""
    prog = rep.prog
    b = rep.need(prog.impl_fn("ir::item::IsOpaque", "ir::item::Item", "is_opaque"), "<Item as IsOpaque>::is_opaque")
    calls = [c for c in b.calls(lambda x: (x.get("callee") or x.get("resolved") or "").endswith("BindgenContext::opaque_by_name"))]
    rep.need(calls, "ctx.opaque_by_name(..) in Item::is_opaque")
    for c in calls:
        extra = []
        for pol, kind, g in b.guards(c, nested=True):
            if kind != "cond":
                extra.append(kind)
                continue
            src = b.canon(g, 8)
            first_two = "Annotations::opaque" in src or "is_some_and" in src and "is_opaque" in src or "ty::Type as ir::item::IsOpaque" in src
            if first_two and not pol:
                continue
            if first_two and pol and False:
                continue
            # `a || b || c`: c runs when (a || b) is false
            if not pol and ("Annotations::opaque" in src or "is_opaque" in src):
                continue
            if in_assert(b, g):
                continue
            extra.append(("" if pol else "!") + src[:70])
        arg = b.canon(c["args"][-1], 6)
        ok = not extra and "path_for_allowlisting(param:self" in arg
        rep.check(ok, "by-name-for-every-item", "reached whenever the first two tests say no; matched against the item's own path" if ok else
                  "the by-name test only runs when %s: items outside that condition ignore `--opaque-type`" % ", ".join(extra) if extra else
                  "the by-name test is given `%s`" % arg[:80], b.loc(c))


def in_assert(b, n):
    names = {"assert", "debug_assert", "assert_eq", "debug_assert_eq", "extra_assert"}
    if b.macro_name(n) in names:
        return True
    return any(b.macro_name(a) in names for a in b.ancestors(n))


@RULES.rule("R10.17", "blocklisted `size_t` / `ssize_t` are only vouched for while bindgen really writes them as `usize` / `isize` (shared with C09 R9.5)", floor=14)
def r10_17(rep):
    """`is_stdint_type` names types bindgen replaces by primitives at every use, so blocklisting them needs no user definition and
    their traits are known.  With `--no-size_t-is-usize` the two names are ordinary typedefs again; answering "primitive" for them then
    derives traits through a type only the user defines (seeded independently for C08 and C10)."""
    import c09
    c09.r9_5(rep)


@RULES.rule("R10.18", "\"a blocklisted template uses all its parameters\" is asked of the template itself", floor=1)
def r10_18(rep):
    """`uses_template_parameter(item, param)` answers true for a blocklisted `item`: the user's definition may use every parameter,
    so every use must spell all arguments.  In `TemplateInstantiation::try_to_rust_ty` the item has to be the template definition
    RESOLVED through type references: the id stored in the instantiation is a reference item that is blocklisted by name like its
    target but has no source file, so with `--blocklist-file` the rule is skipped and `Handle<Session>` becomes `Handle` (seeded)."""
    prog = rep.prog
    b = rep.need(prog.impl_fn("codegen::TryToRustTy", "ir::template::TemplateInstantiation", "try_to_rust_ty"), "<TemplateInstantiation as TryToRustTy>::try_to_rust_ty")
    calls = [c for c in b.calls(lambda x: x["k"] == "MCall" and (x.get("callee") or x.get("resolved") or "").endswith("BindgenContext::uses_template_parameter"))]
    rep.need(calls, "ctx.uses_template_parameter(..) in the argument filter")
    for c in calls:
        a0 = c["args"][0]
        src = b.canon(a0, 10)
        for x in b.walk(a0):
            if x["k"] == "Local" and b.local_init(x["id"]) is not None:
                src += " " + b.canon(b.local_init(x["id"]), 12)
                for y in b.walk(b.local_init(x["id"])):
                    if y["k"] == "MCall":
                        src += " ." + (y.get("name") or "")
        ok = "through_type_refs" in src
        rep.check(ok, "asked-of-resolved-definition", "the definition is resolved through type references first" if ok else
                  "the item asked is `%s`, the id as stored: a reference item has no file, so a template blocklisted by file is not "
                  "recognised and loses the arguments its fields do not mention" % b.canon(a0, 4)[:80], b.loc(c))
