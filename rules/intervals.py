"""E3 — interval abstract interpretation over the type-checked HIR of small arithmetic functions.

Not an executor: every integer expression is mapped to an interval [lo, hi] over the mathematical integers,
conditions refine the intervals of the *expressions* they mention (keyed by a cast-erased canonical string, so
`BIT_WIDTH as usize + bit_shift <= 64` bounds the same sum inside `bytes_needed`'s definition), `||` conditions
are split into cases, loops are widened to "anything the loop condition allows".  Immutable `let` locals are
re-evaluated from their definition under the refinements in force at the point of use.

Checks performed while interpreting:
  * shift amounts must stay below the bit width of the shifted operand's type,
  * unsigned subtraction must not be able to go below zero,
  * `on_leaf(value_node, state)` callbacks for decision-tree style functions.
"""
import re

from hir import strip as _strip_all, kids

INF = float("inf")
INT_TYPES = {"u8": (0, 2 ** 8 - 1), "u16": (0, 2 ** 16 - 1), "u32": (0, 2 ** 32 - 1), "u64": (0, 2 ** 64 - 1),
             "u128": (0, 2 ** 128 - 1), "i8": (-2 ** 7, 2 ** 7 - 1), "i16": (-2 ** 15, 2 ** 15 - 1),
             "i32": (-2 ** 31, 2 ** 31 - 1), "i64": (-2 ** 63, 2 ** 63 - 1), "i128": (-2 ** 127, 2 ** 127 - 1)}
CONST_RE = re.compile(r"(?:core|std)::num::<impl (\w+)>::(MIN|MAX|BITS)$")


def meet(a, b):
    lo, hi = max(a[0], b[0]), min(a[1], b[1])
    return (lo, hi)


def join(a, b):
    return (min(a[0], b[0]), max(a[1], b[1]))


def empty(a):
    return a[0] > a[1]


class State:
    def __init__(self):
        self.env = {}    # mutable local id -> interval
        self.ref = {}    # expression key -> interval
        self.dead = False

    def copy(self):
        s = State()
        s.env = dict(self.env)
        s.ref = dict(self.ref)
        s.dead = self.dead
        return s


def join_states(a, b):
    if a.dead:
        return b.copy()
    if b.dead:
        return a.copy()
    s = State()
    for k in set(a.env) | set(b.env):
        if k in a.env and k in b.env:
            s.env[k] = join(a.env[k], b.env[k])
    for k in set(a.ref) & set(b.ref):
        s.ref[k] = join(a.ref[k], b.ref[k])
    return s


class Finding:
    def __init__(self, kind, key, detail, node):
        self.kind, self.key, self.detail, self.node = kind, key, detail, node


class Interp:
    def __init__(self, body, usize_bits=64, on_leaf=None, opaque_bool=None):
        self.b = body
        self.bits = usize_bits
        self.types = dict(INT_TYPES)
        self.types["usize"] = (0, 2 ** usize_bits - 1)
        self.types["isize"] = (-2 ** (usize_bits - 1), 2 ** (usize_bits - 1) - 1)
        self.findings = []
        self.on_leaf = on_leaf
        self.checked = 0
        self.mutable = body.local_assigned | body.local_mut
        # loop counters (for-pattern bindings and locals stepped by `+= 1`): named `$i` in finding keys so that
        # renaming a counter does not change the identity of a finding
        self.loopvars = set()
        for x in body.walk():
            if x["k"] == "For" and x["pat"].get("k") == "Bind":
                self.loopvars.add(x["pat"]["id"])
            if x["k"] == "AssignOp" and x["op"] == "+=" and x["l"].get("k") == "Local" and x["r"].get("k") == "Lit" and x["r"].get("v") == 1:
                self.loopvars.add(x["l"]["id"])

    # ---- helpers ------------------------------------------------------------------------------
    def ty_range(self, n):
        t = self.b.ty(n)
        if t in self.types:
            return self.types[t]
        if t == "bool":
            return (0, 1)
        return (-INF, INF)

    def ty_bits(self, n):
        t = self.b.ty(n)
        if t in ("usize", "isize"):
            return self.bits
        m = re.fullmatch(r"[ui](\d+)", t or "")
        return int(m.group(1)) if m else None

    def unsigned(self, n):
        return (self.b.ty(n) or "").startswith("u")

    def strip(self, n):
        """peel blocks / parens / unsafe but NOT casts"""
        while n.get("k") == "Block" and not n["stmts"] and n.get("tail") is not None:
            n = n["tail"]
        return n

    def key(self, n):
        n = self.strip(n)
        k = n["k"]
        if k == "Cast":
            return self.key(n["e"])
        if k == "Local":
            if n["id"] in self.loopvars:
                return "$i#%d" % n["id"]
            return n["name"] + "#%d" % n["id"] if n["id"] in self.mutable else n["name"]
        if k == "Path":
            return n["def"].split("::")[-1] if n.get("dk") == "ConstParam" else n["def"]
        if k == "Lit":
            return repr(n.get("v"))
        if k == "Binary":
            return "(%s %s %s)" % (self.key(n["l"]), n["op"], self.key(n["r"]))
        if k == "Unary":
            return "(%s%s)" % (n["op"], self.key(n["e"]))
        if k in ("MCall", "Call"):
            args = ([n["recv"]] if k == "MCall" else []) + n["args"]
            return "%s(%s)" % ((n.get("callee") or "?").split("::")[-1], ", ".join(self.key(a) for a in args))
        if k == "Field":
            return "%s.%s" % (self.key(n["base"]), n["f"])
        if k == "Index":
            return "%s[%s]" % (self.key(n["base"]), self.key(n["idx"]))
        if k == "AddrOf":
            return self.key(n["e"])
        return k

    # ---- expression evaluation ------------------------------------------------------------------
    def eval(self, n, st):
        n = self.strip(n)
        v = self._eval(n, st)
        r = st.ref.get(self.key(n))
        if r is not None:
            v = meet(v, r)
        tr = self.ty_range(n)
        if v[0] >= tr[0] and v[1] <= tr[1]:
            return v
        # out of the type's range: wraps in release builds, panics in debug builds -> any value of the type
        return tr

    def _eval(self, n, st):
        k = n["k"]
        if k == "Lit":
            if n.get("lk") == "int":
                return (n["v"], n["v"])
            if n.get("lk") == "bool":
                return (int(n["v"]), int(n["v"]))
            return (-INF, INF)
        if k == "Path":
            m = CONST_RE.search(n["def"])
            if m:
                ty, what = m.group(1), m.group(2)
                if what == "BITS":
                    bits = self.bits if ty in ("usize", "isize") else int(ty[1:])
                    return (bits, bits)
                r = self.types[ty]
                return (r[0], r[0]) if what == "MIN" else (r[1], r[1])
            return self.ty_range(n)
        if k == "Local":
            if n["id"] in self.mutable:
                return st.env.get(n["id"], self.ty_range(n))
            init = self.b.local_init(n["id"])
            if init is not None:
                return self.eval(init, st)
            return self.ty_range(n)
        if k == "Cast":
            v = self.eval(n["e"], st)
            tr = self.ty_range(n)
            if v[0] >= tr[0] and v[1] <= tr[1]:
                return v
            return tr
        if k == "Call" and (n.get("callee") or "").endswith("::from") and len(n["args"]) == 1:
            return self.eval(n["args"][0], st)
        if k == "Unary":
            if n["op"] == "-":
                v = self.eval(n["e"], st)
                return (-v[1], -v[0])
            return self.ty_range(n)
        if k == "Binary":
            op = n["op"]
            if op in ("&&", "||", "==", "!=", "<", "<=", ">", ">="):
                return (0, 1)
            l, r = self.eval(n["l"], st), self.eval(n["r"], st)
            if op in ("<<", ">>"):
                self.check_shift(n, n["l"], n["r"], r, st)
            return self.arith(n, op, l, r, st)
        if k == "If":
            outs = []
            for s2, branch in self.branches(n, st):
                if branch is not None:
                    outs.append(self.eval(branch, s2))
            if outs:
                v = outs[0]
                for o in outs[1:]:
                    v = join(v, o)
                return v
        return self.ty_range(n)

    def arith(self, n, op, l, r, st):
        if any(x in (INF, -INF) for x in l + r):
            if op == "%" and r[0] == r[1] and r[0] > 0 and l[0] >= 0:
                return (0, r[0] - 1)
            return self.ty_range(n)
        if op == "+":
            return (l[0] + r[0], l[1] + r[1])
        if op == "-":
            if self.unsigned(n):
                self.checked += 1
                if l[0] < r[1]:
                    self.find("sub-underflow", n, "unsigned subtraction `%s` can go below zero: left in [%s, %s], right in [%s, %s]" %
                              (self.key(n), l[0], l[1], r[0], r[1]))
            return (l[0] - r[1], l[1] - r[0])
        if op == "*":
            ps = [l[0] * r[0], l[0] * r[1], l[1] * r[0], l[1] * r[1]]
            return (min(ps), max(ps))
        if op == "/":
            if r[0] > 0 and l[0] >= 0:
                return (l[0] // r[1], l[1] // r[0])
            return self.ty_range(n)
        if op == "%":
            if r[0] > 0 and l[0] >= 0:
                if l[1] < r[0]:
                    return l
                return (0, r[1] - 1)
            return self.ty_range(n)
        if op == "<<":
            if l[0] >= 0 and r[0] >= 0 and r[1] < 256:
                return (l[0] << int(r[0]), l[1] << int(r[1]))
            return self.ty_range(n)
        if op == ">>":
            if l[0] >= 0 and r[0] >= 0 and r[1] < 256:
                return (l[0] >> int(r[1]), l[1] >> int(r[0]))
            return self.ty_range(n)
        if op == "&":
            if l[0] >= 0 and r[0] >= 0:
                return (0, min(l[1], r[1]))
            return self.ty_range(n)
        if op in ("|", "^"):
            if l[0] >= 0 and r[0] >= 0:
                m = max(l[1], r[1])
                return (0, (1 << int(m).bit_length()) - 1)
            return self.ty_range(n)
        return self.ty_range(n)

    def find(self, kind, n, detail, key=None):
        fn = self.b.path.split("::")[-1]
        self.findings.append(Finding(kind, key or "%s:%s:%s" % (kind, fn, self.key(n)), detail, n))

    def check_shift(self, n, lhs, rhs, amount, st):
        bits = self.ty_bits(lhs)
        if bits is None:
            return
        self.checked += 1
        if amount[1] >= bits or amount[0] < 0:
            fn = self.b.path.split("::")[-1]
            op = n["op"].rstrip("=")
            self.findings.append(Finding(
                "shift-overflow", "shift-overflow:%s:%s %s:u%d" % (fn, op, self.key(rhs), bits),
                "`%s %s %s`: the amount can reach %s but the operand has %d bits (usize = %d bits)" %
                (self.key(lhs), n["op"], self.key(rhs), amount[1], bits, self.bits), n))

    # ---- conditions -----------------------------------------------------------------------------
    def cases(self, cond, pol, st):
        """DNF: list of states in which cond evaluates to pol."""
        c = self.strip(cond)
        k = c["k"]
        if k == "Unary" and c["op"] == "!":
            return self.cases(c["e"], not pol, st)
        if k == "Binary" and c["op"] in ("&&", "||"):
            conj = (c["op"] == "&&") == pol
            if conj:
                out = []
                for s1 in self.cases(c["l"], pol, st):
                    out += self.cases(c["r"], pol, s1)
                return out
            # disjunction: l holds | l fails and r holds
            out = self.cases(c["l"], pol, st)
            for s1 in self.cases(c["l"], not pol, st):
                out += self.cases(c["r"], pol, s1)
            return out
        if k == "Local" and c["id"] not in self.mutable:
            init = self.b.local_init(c["id"])
            if init is not None:
                return self.cases(init, pol, st)
        if k == "Lit" and c.get("lk") == "bool":
            if self.b.macro_name(c) == "cfg":
                return [st.copy()]  # target dependent: both ways
            return [st.copy()] if c["v"] == pol else []
        if k == "Binary" and c["op"] in ("<", "<=", ">", ">=", "==", "!="):
            op = c["op"]
            if not pol:
                op = {"<": ">=", "<=": ">", ">": "<=", ">=": "<", "==": "!=", "!=": "=="}[op]
            s = st.copy()
            l, r = self.eval(c["l"], s), self.eval(c["r"], s)
            if op in (">", ">="):
                op = "<" if op == ">" else "<="
                a, b_, la, lb = c["r"], c["l"], r, l
            else:
                a, b_, la, lb = c["l"], c["r"], l, r
            if op == "<":
                na, nb = (la[0], min(la[1], lb[1] - 1)), (max(lb[0], la[0] + 1), lb[1])
            elif op == "<=":
                na, nb = (la[0], min(la[1], lb[1])), (max(lb[0], la[0]), lb[1])
            elif op == "==":
                na = nb = meet(la, lb)
            else:  # !=
                na, nb = la, lb
                if lb[0] == lb[1]:
                    if la[0] == lb[0]:
                        na = (la[0] + 1, la[1])
                    elif la[1] == lb[0]:
                        na = (la[0], la[1] - 1)
                if la[0] == la[1]:
                    if lb[0] == la[0]:
                        nb = (lb[0] + 1, lb[1])
                    elif lb[1] == la[0]:
                        nb = (lb[0], lb[1] - 1)
            if empty(na) or empty(nb):
                return []
            self.refine(a, na, s)
            self.refine(b_, nb, s)
            return [s]
        return [st.copy()]  # opaque condition: both ways possible

    def refine(self, n, iv, st, depth=4):
        n = self.strip(n)
        k = n["k"]
        if k == "Cast":
            inner = n["e"]
            ir = self.ty_range(self.strip(inner))
            # only widening casts preserve the value
            tr = self.ty_range(n)
            if ir[0] >= tr[0] and ir[1] <= tr[1]:
                self.refine(inner, iv, st, depth)
            return
        if k == "Call" and (n.get("callee") or "").endswith("::from") and len(n["args"]) == 1:
            self.refine(n["args"][0], iv, st, depth)
            return
        if k == "Lit":
            return
        if k == "Local" and n["id"] in self.mutable:
            st.env[n["id"]] = meet(st.env.get(n["id"], self.ty_range(n)), iv)
            return
        key = self.key(n)
        st.ref[key] = meet(st.ref.get(key, (-INF, INF)), iv)
        if depth <= 0:
            return
        if k == "Local":
            init = self.b.local_init(n["id"])
            if init is not None:
                self.refine(init, iv, st, depth - 1)
        elif k == "Binary" and n["op"] == "+":
            l, r = self.eval(n["l"], st), self.eval(n["r"], st)
            self.refine(n["l"], (iv[0] - r[1], iv[1] - r[0]), st, depth - 1)
            self.refine(n["r"], (iv[0] - l[1], iv[1] - l[0]), st, depth - 1)

    def branches(self, n, st):
        """[(state, branch node or None)] for an If."""
        out = []
        for s in self.cases(n["cond"], True, st):
            out.append((s, n["then"]))
        for s in self.cases(n["cond"], False, st):
            out.append((s, n.get("else")))
        return out

    # ---- statements -------------------------------------------------------------------------------
    def run(self):
        st = State()
        self.exec_block(self.b.root, st, is_fn_body=True)
        return self.findings

    def leaf(self, n, st):
        if self.on_leaf and not st.dead:
            self.on_leaf(self, n, st)

    def exec_block(self, blk, st, is_fn_body=False, value=False):
        blk = blk if blk["k"] == "Block" else {"k": "Block", "stmts": [], "tail": blk}
        for s in blk["stmts"]:
            if st.dead:
                return
            self.exec_stmt(s, st)
        t = blk.get("tail")
        if t is not None and not st.dead:
            if is_fn_body or value:
                self.exec_value(t, st)
            else:
                self.exec_expr(t, st)

    def exec_value(self, n, st):
        """expression in result position of the function"""
        n0 = self.strip(n)
        if n0["k"] == "If":
            for s2, br in self.branches(n0, st):
                if br is not None:
                    self.exec_block(br, s2, value=True)
            return
        if n0["k"] == "Block":
            self.exec_block(n0, st, value=True)
            return
        if n0["k"] == "Match":
            for a in n0["arms"]:
                self.exec_value(a["body"], st.copy())
            return
        self.exec_expr(n0, st)
        self.leaf(n0, st)

    def exec_stmt(self, s, st):
        k = s["k"]
        if k == "Let":
            init = s.get("init")
            p = s["pat"]
            if init is not None:
                v = self.eval(init, st)
                self.scan(init, st)
                if p.get("k") == "Bind" and p["id"] in self.mutable:
                    st.env[p["id"]] = v
            return
        if k in ("Semi", "ExprStmt"):
            self.exec_expr(s["e"], st)

    def scan(self, n, st):
        """evaluate nested shifts/subtractions inside an expression for their checks"""
        for x in self.b.walk(n):
            if x["k"] == "Binary" and x["op"] in ("<<", ">>", "-") and x is not n:
                pass
        # eval() already recursed into sub-expressions of arithmetic nodes; calls and indexes need a visit
        for x in self.b.walk(n):
            if x["k"] in ("MCall", "Call", "Index", "AddrOf", "Unary", "Field", "Struct", "Tup") and x is not n:
                for _, c in kids(x):
                    if c["k"] in ("Binary", "Cast"):
                        self.eval(c, st)

    def exec_expr(self, n, st):
        n = self.strip(n)
        k = n["k"]
        if k == "If":
            # debug_assert!/assert!: `if true { if !c { panic } }` executes inline
            c = self.strip(n["cond"])
            if c["k"] == "Lit" and c.get("v") is True and self.b.macro_name(c) != "cfg" and "else" not in n:
                self.exec_block(n["then"], st)
                return
            outs = []
            for s2, br in self.branches(n, st):
                if br is not None:
                    self.exec_block(br, s2)
                outs.append(s2)
            live = [o for o in outs if not o.dead]
            if not live:
                st.dead = True
                return
            res = live[0]
            for o in live[1:]:
                res = join_states(res, o)
            st.env, st.ref = res.env, res.ref
            return
        if k == "Block":
            self.exec_block(n, st)
            return
        if k == "Ret":
            if "e" in n:
                self.eval(n["e"], st)
                self.leaf(self.strip(n["e"]), st)
            st.dead = True
            return
        if k in ("Call", "MCall") and (self.b.ty(n) == "!"):
            st.dead = True
            return
        if k == "While":
            self.loop(n, st, cond=n["cond"])
            return
        if k == "For":
            it = self.strip(n["iter"])
            rng = None
            if it["k"] == "Struct" and "Range" in (it.get("adt") or ""):
                fs = {f["f"]: f["e"] for f in it["fs"]}
                if "start" in fs and "end" in fs:
                    a, b_ = self.eval(fs["start"], st), self.eval(fs["end"], st)
                    hi = b_[1] - (0 if "Inclusive" in it["adt"] else 1)
                    rng = (a[0], hi)
                    if rng[0] > rng[1]:
                        return  # empty range on every path
            pid = n["pat"].get("id")
            self.mutable = self.mutable | {pid}
            self.loop(n, st, var=(pid, rng))
            return
        if k == "Loop":
            self.loop(n, st)
            return
        if k == "Assign":
            l = self.strip(n["l"])
            v = self.eval(n["r"], st)
            self.scan(n["r"], st)
            self.scan(n["l"], st)
            if l["k"] == "Local":
                st.env[l["id"]] = v
            return
        if k == "AssignOp":
            l = self.strip(n["l"])
            op = n["op"].rstrip("=")
            lv, rv = self.eval(n["l"], st), self.eval(n["r"], st)
            self.scan(n["r"], st)
            if op in ("<<", ">>"):
                self.check_shift(n, n["l"], n["r"], rv, st)
            fake = dict(n, k="Binary", op=op, t=l.get("t"))
            v = self.arith(fake, op, lv, rv, st)
            tr = self.ty_range(l)
            if not (v[0] >= tr[0] and v[1] <= tr[1]):
                v = tr
            if l["k"] == "Local":
                st.env[l["id"]] = v
            return
        if k in ("Binary", "Cast", "Unary", "Local", "Lit", "Path"):
            self.eval(n, st)
            self.scan(n, st)
            return
        # calls, indexing, etc.: visit sub-expressions for their checks
        for _, c in kids(n):
            if c["k"] in ("Block", "If", "While", "For", "Loop", "Closure"):
                self.exec_expr(c, st)
            else:
                self.eval(c, st) if c["k"] in ("Binary", "Cast") else self.exec_expr(c, st) if c["k"] in ("MCall", "Call", "Index", "AddrOf", "Unary", "Field") else None

    def loop(self, n, st, cond=None, var=None):
        body = n["body"]
        # widen: every local assigned in the body may hold anything of its type at the loop head
        assigned = set()
        for x in self.b.walk(body):
            if x["k"] in ("Assign", "AssignOp"):
                l = self.strip(x["l"])
                if l["k"] == "Local":
                    assigned.add((l["id"], l.get("t")))
        for lid, t in assigned:
            ty = self.b.prog.types[t] if t is not None else None
            st.env[lid] = self.types.get(ty, (-INF, INF))
        if var is not None:
            pid, rng = var
            st.env[pid] = rng if rng is not None else (-INF, INF)
        inner = st.copy()
        if cond is not None:
            cs = self.cases(cond, True, inner)
            if not cs:
                return
            inner = cs[0]
            for c in cs[1:]:
                inner = join_states(inner, c)
        self.exec_block(body, inner)
        # after the loop: the widened state (nothing precise is needed afterwards)
