"""C12 — generation ends with bindings or an error value, never a panic.

Panic freedom of the ~400 `unwrap/expect/assert/unreachable` sites of bindgen is not statically
provable and is NOT claimed.  What is decided are structural necessary conditions:

  R12.1  an analysis result of `BindgenContext` that is only *conditionally* computed (`Option` field filled
         in a `compute_*` step under an option condition C) is only unwrapped where C is known to hold
         (propositional entailment over `BindgenOptions` flags, guards followed through the callers);
  R12.2  user text (string options, `rustbindgen` annotations from header comments) is never the input of
         a `TokenStream::from_str` / `str::parse` / `syn::parse_str` whose result is `unwrap`ped
         (backward taint over locals, `format!`, iteration, helper parameters and helper results);
  R12.3  every `BindgenError` variant is produced as an `Err` value on a path from `Builder::generate`;
         clang errors are turned into `ClangDiagnostic` before the AST is visited; the path triage maps
         directory / unreadable / missing to the three path errors before clang sees the file;
  R12.4  phase typestate: the functions that hard-assert the codegen phase or unwrap a codegen-phase result
         are not reachable from the parse-phase entry points, the phase flag is set in one place only and
         `gen` runs after `parse`;
  R12.5  `begin_parsing`/`finish_parsing` are balanced on every path (path-sensitive on unmodified bool
         locals such as `valid_decl`);
  R12.6  structural fall-backs: `ItemResolver::resolve` stops on a repeated id, failed type parses fall back
         to opaque blobs, `Type::from_clang_ty` answers unknown clang kinds with an error value;
  R12.7  libclang's refusal to build a translation unit is not `unwrap`ped;
  R12.8  user text never becomes a `proc_macro2::Ident` unchecked (`Ident::new` panics on a non-identifier).
"""
import re
from collections import defaultdict

from engine import RuleSet
from hir import strip, pat_variants, kids

RULES = RuleSet("C12", "§3 C12",
                not_decided=["termination and stack depth (recursion over the clang AST is not bounded statically)",
                             "the remaining ~400 unwrap/expect/assert/unreachable sites whose preconditions depend on AST shapes",
                             "debug_assert!-only phase checks (compiled out of release builds) are listed, not enforced",
                             "token streams (not text) derived from user strings that later fail in syn::parse2 / parse_quote! "
                             "(e.g. `--ctypes-prefix 'a b'` lexes but is no path); only the lexing sinks are tracked",
                             "strings returned by ParseCallbacks (the property excludes non-cooperating callbacks)"])

CTX = "ir::context::BindgenContext"
OPT = "options::BindgenOptions"
ANN = "ir::annotations::Annotations"
ERR = "BindgenError"


# ---------------------------------------------------------------------------------------------
# naming, indexes
# ---------------------------------------------------------------------------------------------
def short(body):
    """Stable short name of a body: `Type::method`, `Trait::method` for blanket impls, `module::function`."""
    last = body.path.split("::")[-1]
    own = body.fact.get("impl_self")
    if own:
        own = own.split("<")[0].split("::")[-1]
        if len(own) <= 1 and body.fact.get("impl_trait"):
            own = body.fact["impl_trait"].split("<")[0].split("::")[-1]
        return "%s::%s" % (own, last)
    return "::".join(body.path.split("::")[-2:])


def callee_of(n):
    return n.get("resolved") or n.get("callee") or ""


_IDX = {}


class Index:
    """Per-program indexes shared by the rules (built once)."""

    def __init__(self, prog):
        self.prog = prog
        self.callers = defaultdict(list)  # callee path -> [(body, call node)]
        self.impls_of_item = defaultdict(set)
        for p, b in prog.bodies.items():
            ti = b.fact.get("trait_item")
            if ti:
                self.impls_of_item[ti].add(p)
        self.graph = {}
        for p, b in prog.bodies.items():
            cs = set()
            for n in b.nodes:
                k = n["k"]
                if k in ("Call", "MCall"):
                    if n.get("resolved"):
                        cs.add(n["resolved"])
                        self.callers[n["resolved"]].append((b, n))
                    elif n.get("callee"):
                        cs.add(n["callee"])
                        cs |= self.impls_of_item.get(n["callee"], set())
                        self.callers[n["callee"]].append((b, n))
                elif k == "Path" and n.get("dk") in ("Fn", "AssocFn"):
                    cs.add(n["def"])
                    cs |= self.impls_of_item.get(n["def"], set())
            self.graph[p] = cs

    def callers_of(self, body):
        """call sites of a body: direct ones plus unresolved calls of the trait item it implements."""
        out = list(self.callers.get(body.path, []))
        ti = body.fact.get("trait_item")
        if ti:
            out += [(b, n) for b, n in self.callers.get(ti, []) if not n.get("resolved")]
        return out

    def reachable(self, roots):
        """reachability over the call graph that uses the *resolved* callee whenever rustc could resolve the
        call (monomorphic), and falls back to "every impl of the trait item" only for unresolved dispatch."""
        seen = {}
        stack = [(r, None) for r in roots]
        while stack:
            x, via = stack.pop()
            if x in seen:
                continue
            seen[x] = via
            for y in self.graph.get(x, ()):
                if y not in seen:
                    stack.append((y, x))
        return seen

    def chain(self, seen, x):
        out = []
        while x is not None and len(out) < 12:
            out.append(x)
            x = seen.get(x)
        return " <- ".join(out)


def index(prog):
    ix = _IDX.get(id(prog))
    if ix is None or ix.prog is not prog:
        ix = Index(prog)
        _IDX[id(prog)] = ix
    return ix


def arg_of(call, i):
    """i-th actual of a call in callee-parameter numbering (receiver = 0 for method calls)."""
    if call["k"] == "MCall":
        if i == 0:
            return call["recv"]
        i -= 1
    a = call.get("args") or []
    return a[i] if i < len(a) else None


def is_some_ctor(n):
    n = strip(n)
    return n.get("k") == "Call" and (n.get("ctor_of") or n.get("ctor") or "").endswith("::Some")


# ---------------------------------------------------------------------------------------------
# propositional guards over BindgenOptions flags
# ---------------------------------------------------------------------------------------------
T = ("const", True)
F = ("const", False)
ASSERT_MACROS = ("assert", "debug_assert", "assert_eq", "assert_ne", "debug_assert_eq", "debug_assert_ne")


def f_not(a):
    if a[0] == "const":
        return ("const", not a[1])
    if a[0] == "not":
        return a[1]
    return ("not", a)


def f_and(xs):
    out = []
    for x in xs:
        if x == T:
            continue
        if x == F:
            return F
        out.extend(x[1]) if x[0] == "and" else out.append(x)
    if not out:
        return T
    return out[0] if len(out) == 1 else ("and", out)


def f_or(xs):
    out = []
    for x in xs:
        if x == F:
            continue
        if x == T:
            return T
        out.extend(x[1]) if x[0] == "or" else out.append(x)
    if not out:
        return F
    return out[0] if len(out) == 1 else ("or", out)


def f_atoms(f, acc=None):
    acc = set() if acc is None else acc
    if f[0] in ("opt", "opaque"):
        acc.add(f)
    elif f[0] == "not":
        f_atoms(f[1], acc)
    elif f[0] in ("and", "or"):
        for x in f[1]:
            f_atoms(x, acc)
    return acc


def f_eval(f, env):
    k = f[0]
    if k == "const":
        return f[1]
    if k in ("opt", "opaque"):
        return env[f]
    if k == "not":
        return not f_eval(f[1], env)
    if k == "and":
        return all(f_eval(x, env) for x in f[1])
    return any(f_eval(x, env) for x in f[1])


def f_str(f):
    k = f[0]
    if k == "const":
        return "true" if f[1] else "false"
    if k == "opt":
        return "options." + f[1]
    if k == "opaque":
        return "?"
    if k == "not":
        return "!" + f_str(f[1])
    return "(" + (" && " if k == "and" else " || ").join(f_str(x) for x in f[1]) + ")"


def implies(g, c, inv=()):
    """(ok, counterexample) — does g entail c for every valuation of the atoms that satisfies the
    option invariants `inv` (pairs (a, b) meaning options.a ⇒ options.b)?"""
    atoms = f_atoms(g) | f_atoms(c)
    # an invariant matters as soon as one of its two flags occurs
    for a, b in inv:
        if ("opt", a) in atoms or ("opt", b) in atoms:
            atoms |= {("opt", a), ("opt", b)}
    atoms = sorted(atoms)
    if len(atoms) > 16:
        return False, "guard too complex to decide (%d atoms)" % len(atoms)
    for bits in range(1 << len(atoms)):
        env = {a: bool(bits >> i & 1) for i, a in enumerate(atoms)}
        if any(env.get(("opt", a)) and not env.get(("opt", b), True) for a, b in inv):
            continue
        if f_eval(g, env) and not f_eval(c, env):
            on = [a[1] for a in atoms if a[0] == "opt" and env[a]]
            off = [a[1] for a in atoms if a[0] == "opt" and not env[a]]
            return False, "options on: %s; off: %s" % (",".join(on) or "-", ",".join(off) or "-")
    return True, ""


def boolf(body, n, depth=16):
    n = strip(n)
    k = n.get("k")
    if depth <= 0:
        return ("opaque", body.path + "|" + body.canon(n, 4))
    rec = lambda x: boolf(body, x, depth - 1)
    if k == "Lit" and isinstance(n.get("v"), bool):
        return ("const", n["v"])
    if k == "Field" and n.get("adt") == OPT and body.ty(n) == "bool":
        return ("opt", n["f"])
    if k == "Unary" and n["op"] == "!":
        return f_not(rec(n["e"]))
    if k == "Binary" and n["op"] == "&&":
        return f_and([rec(n["l"]), rec(n["r"])])
    if k == "Binary" and n["op"] == "||":
        return f_or([rec(n["l"]), rec(n["r"])])
    if k == "Local" and body.ty(n) == "bool":
        init = body.local_init(n["id"])
        if init is not None:
            return rec(init)
    if k == "If" and "else" in n and body.ty(n) == "bool":
        c = rec(n["cond"])
        return f_or([f_and([c, rec(n["then"])]), f_and([f_not(c), rec(n["else"])])])
    if k == "Match" and body.ty(n["scrut"]) == "bool" and body.ty(n) == "bool":
        s = rec(n["scrut"])
        alts = []
        seen = set()
        for a in n["arms"]:
            if "guard" in a:
                return ("opaque", body.path + "|" + body.canon(n, 4))
            pv = pat_variants(a["pat"])
            mine = set()
            for v in pv:
                mine |= {True, False} if v == "_" else ({True} if v == "lit:True" else {False} if v == "lit:False" else set())
            mine -= seen
            seen |= mine
            for val in mine:
                alts.append(f_and([s if val else f_not(s), rec(a["body"])]))
        return f_or(alts)
    if k == "Block" and n.get("tail") is not None and all(st["k"] == "Let" and "els" not in st for st in n["stmts"]):
        return rec(n["tail"])
    return ("opaque", body.path + "|" + body.canon(n, 4))


def guardf(body, n, strict=False):
    """guard chain of n as a formula.  Non-boolean guards (match arms, let-else) are dropped when the formula
    is used as an antecedent (dropping conjuncts only weakens it) and kept as opaque atoms when `strict`."""
    conj = []
    for pol, kind, g in body.guards(n):
        if kind == "cond" and (body.macro_name(g) or "").split("::")[-1] in ASSERT_MACROS:
            # `assert!(c); rest` — the remainder runs whenever the function returns at all
            continue
        if kind == "cond":
            f = boolf(body, g)
            conj.append(f if pol else f_not(f))
        elif kind == "arm" and body.ty(g[0]["scrut"]) == "bool":
            m, i = g
            lits = set()
            for v in pat_variants(m["arms"][i]["pat"]):
                lits |= {True, False} if v == "_" else ({True} if v == "lit:True" else {False} if v == "lit:False" else set())
            for a in m["arms"][:i]:
                if "guard" not in a:
                    for v in pat_variants(a["pat"]):
                        lits -= {True, False} if v == "_" else ({True} if v == "lit:True" else {False} if v == "lit:False" else set())
            s = boolf(body, m["scrut"])
            if lits == {True}:
                conj.append(s)
            elif lits == {False}:
                conj.append(f_not(s))
            elif strict and not lits:
                conj.append(F)
        elif strict:
            conj.append(("opaque", "%s|guard#%d" % (body.path, (g[0] if kind == "arm" else g)["_i"])))
    return f_and(conj)


# ---------------------------------------------------------------------------------------------
# invariants of the option set maintained by its writers (`derive_ord ⇒ derive_partialord`, …)
# ---------------------------------------------------------------------------------------------
def flag_invariants(prog):
    """Pairs (A, B) of bool fields of BindgenOptions with `A ⇒ B` in every reachable option set:
    A starts false, and every function that assigns A or B re-establishes the implication (checked by
    running the writer on all pre-states satisfying it and both values of its bool parameter).
    returns {(A, B): [writer bodies]}"""
    writers = defaultdict(list)  # body path -> [assign nodes]
    escaped = set()
    for b in prog.bodies.values():
        for n in b.nodes:
            if n["k"] == "Assign" and n["l"].get("k") == "Field" and n["l"].get("adt") == OPT and b.ty(n["l"]) == "bool":
                writers[b.path].append(n)
            elif n["k"] == "AddrOf" and n.get("mut") and n["e"].get("k") == "Field" and n["e"].get("adt") == OPT and b.ty(n["e"]) == "bool":
                escaped.add(n["e"]["f"])
    # defaults
    defaults = {}
    lits = []
    for b in prog.bodies.values():
        for n in b.nodes:
            if n["k"] == "Struct" and n.get("adt") == OPT:
                lits.append((b, n))
    for b, n in lits:
        tr = b.fact.get("impl_trait") or ""
        if tr.endswith("::Clone"):
            continue
        for f in n["fs"]:
            e = strip(f["e"])
            v = None
            if e.get("k") == "Lit" and isinstance(e.get("v"), bool):
                v = e["v"]
            elif e.get("k") == "Call" and callee_of(e) == "<bool as std::default::Default>::default":
                v = False
            prev = defaults.get(f["f"], v)
            defaults[f["f"]] = v if prev == v else None
        if "base" in n:
            defaults.clear()
            break
    by_flag = defaultdict(set)
    for p, ns in writers.items():
        for n in ns:
            by_flag[n["l"]["f"]].add(p)

    def run(body, A, B, st, p):
        """execute the statements of body that assign A / B; returns False when undecidable."""
        rel = [n for n in writers[body.path] if n["l"]["f"] in (A, B)]

        def has_rel(x):
            return any(_contains(x, r) for r in rel)

        def val(e):
            e = strip(e)
            if e.get("k") == "Lit" and isinstance(e.get("v"), bool):
                return e["v"]
            if e.get("k") == "Unary" and e["op"] == "!":
                v = val(e["e"])
                return None if v is None else (not v)
            if e.get("k") == "Local" and body.ty(e) == "bool":
                d = body.local_def.get(e["id"])
                if d and d[0][0] == "param" and e["id"] not in body.local_assigned:
                    return p
                init = body.local_init(e["id"])
                if init is not None:
                    return val(init)
            if e.get("k") == "Field" and e.get("adt") == OPT and e["f"] in (A, B):
                return st[e["f"]]
            return None

        def block(x):
            x = x if x.get("k") == "Block" else {"k": "Block", "stmts": [], "tail": x}
            items = [s.get("e") if s["k"] in ("Semi", "ExprStmt") else s for s in x["stmts"]]
            if x.get("tail") is not None:
                items.append(x["tail"])
            for e in items:
                if e is None or not has_rel(e):
                    continue
                if e["k"] == "Assign" and e in rel:
                    v = val(e["r"])
                    if v is None:
                        return False
                    st[e["l"]["f"]] = v
                elif e["k"] == "If":
                    c = val(e["cond"])
                    if c is None:
                        return False
                    br = e["then"] if c else e.get("else")
                    if br is not None and not block(br):
                        return False
                elif e["k"] == "Block":
                    if not block(e):
                        return False
                else:
                    return False
            return True
        return block(body.root)

    out = {}
    for p, ns in writers.items():
        fl = sorted({n["l"]["f"] for n in ns})
        for A in fl:
            for B in fl:
                if A == B or (A, B) in out or A in escaped or B in escaped:
                    continue
                if defaults.get(A) is not False:
                    continue
                ok = True
                ws = sorted(by_flag[A] | by_flag[B])
                for w in ws:
                    wb = prog.bodies[w]
                    for pre in ((False, False), (False, True), (True, True)):
                        for pv in (False, True):
                            st = {A: pre[0], B: pre[1]}
                            if not run(wb, A, B, st, pv) or (st[A] and not st[B]):
                                ok = False
                if ok:
                    out[(A, B)] = [prog.bodies[w] for w in ws]
    return out


# ---------------------------------------------------------------------------------------------
# R12.1
# ---------------------------------------------------------------------------------------------
def option_fields(prog, adt_path):
    adt = prog.adts.get(adt_path)
    if not adt:
        return {}
    out = {}
    for v in adt["variants"]:
        for f in v["fields"]:
            t = prog.types[f["ty"]]
            if t.startswith("std::option::Option<"):
                out[f["name"]] = t
    return out


def ctx_field(n, fields):
    """n (after peeling as_ref/as_mut/&) is `<ctx>.<f>` for an Option field of BindgenContext → f."""
    r = strip(n)
    if r.get("k") == "Field" and r.get("adt") == CTX and r["f"] in fields:
        return r["f"]
    return None


@RULES.rule("R12.1", "conditionally computed results are only unwrapped where their condition holds", floor=22)
def r12_1(rep):
    """Breaks: make `compute_has_float` run only under `derive_eq` → `--with-derive-ord` alone reaches
    `lookup_has_float` (`ctx.options().derive_ord && … !ctx.lookup_has_float(id)`) and unwraps `None`."""
    prog = rep.prog
    ix = index(prog)
    fields = rep.need(option_fields(prog, CTX), "Option-typed fields of " + CTX)
    gen = rep.need(prog.fn(CTX + "::gen"), CTX + "::gen")

    # the callback invocation that starts code generation inside `gen`
    cb_calls = [n for n in gen.walk() if n["k"] == "Call" and "f" in n and strip(n["f"]).get("k") == "Local"
                and any(strip(a).get("k") == "Local" and strip(a).get("name") == "self" for a in n["args"])]
    rep.need(cb_calls, "the `cb(&self)` call in BindgenContext::gen")
    cb_i = min(n["_i"] for n in cb_calls)

    # fill sites
    fills = defaultdict(list)  # field -> [(body, node)]
    resets = []
    for b in prog.bodies.values():
        for n in b.nodes:
            if n["k"] == "Assign":
                f = None
                l = n["l"]
                if l.get("k") == "Field" and l.get("adt") == CTX and l["f"] in fields:
                    f = l["f"]
                if f is None:
                    continue
                if is_some_ctor(n["r"]):
                    fills[f].append((b, n))
                else:
                    resets.append((f, b, n))
            elif n["k"] == "MCall" and n["name"] in ("take", "insert", "get_or_insert_with", "get_or_insert", "replace"):
                f = None
                r = n["recv"]
                while r.get("k") == "AddrOf":
                    r = r["e"]
                if r.get("k") == "Field" and r.get("adt") == CTX and r["f"] in fields and \
                        (b.ty(r) or "").startswith("std::option::Option<"):
                    if n["name"] == "take":
                        resets.append((r["f"], b, n))

    def gen_guard(fb):
        """condition under which `gen` runs the step `fb` before handing over to code generation."""
        alts = []
        for n in gen.calls(lambda c: callee_of(c) == fb.path):
            if n["_i"] < cb_i:
                alts.append(guardf(gen, n, strict=True))
        return f_or(alts)

    cond = {}
    where = {}
    for f, sites in fills.items():
        alts = []
        for b, n in sites:
            if b is gen:
                alts.append(guardf(b, n, strict=True) if n["_i"] < cb_i else F)
            else:
                alts.append(f_and([guardf(b, n, strict=True), gen_guard(b)]))
        cond[f] = f_or(alts)
        where[f] = ", ".join(sorted({short(b) for b, _ in sites}))

    # unwrap sites
    unwraps = []
    for b in prog.bodies.values():
        for n in b.nodes:
            if n["k"] == "MCall" and n["name"] in ("unwrap", "expect", "unwrap_unchecked"):
                f = ctx_field(n["recv"], fields)
                if f is not None and (b.ty(strip(n["recv"])) or "").startswith("std::option::Option<"):
                    unwraps.append((f, b, n))
    rep.need(unwraps, "unwrap/expect of an Option field of BindgenContext")

    for f, b, n in resets:
        if any(u[0] == f for u in unwraps):
            rep.bad("reset:%s@%s" % (f, short(b)), "result field `%s` is emptied again; later unwraps may see None" % f, b.loc(n))

    invs = flag_invariants(prog)
    for (a, b2), ws in sorted(invs.items()):
        rep.ok("option-invariant:%s=>%s" % (a, b2), "`%s` starts false and every writer keeps `%s ⇒ %s` (%s)" %
               (a, a, b2, ", ".join(short(w) for w in ws)), ws[0].loc(ws[0].root))
    inv = tuple(invs)

    def check_site(f, need, body, node, g_inner, depth, via):
        g = f_and([g_inner, guardf(body, node)])
        ok, cex = implies(g, need, inv)
        key = "guard:%s@%s" % (f, short(body))
        if ok:
            rep.ok(key, "guard %s implies %s%s" % (f_str(g), f_str(need), via), body.loc(node))
            return
        sites = ix.callers_of(body) if body.kind in ("Fn", "AssocFn") else []
        if depth <= 0 or not sites:
            rep.bad(key, "`%s` is only computed when %s (in %s) but this site unwraps it under guard %s [%s]%s"
                    % (f, f_str(need), where.get(f, "?"), f_str(g), cex, via), body.loc(node))
            return
        for cb, c in sites:
            # option flags do not change during code generation: what the callee already knows stays known
            keep = f_and([x for x in (g[1] if g[0] == "and" else [g]) if not any(a[0] == "opaque" for a in f_atoms(x))])
            check_site(f, need, cb, c, keep, depth - 1, via + " via " + short(body))

    for f, b, n in unwraps:
        need = cond.get(f, F)
        if need == F:
            rep.bad("unwrap:%s@%s" % (f, short(b)), "`%s` is unwrapped but no `Some(..)` assignment runs in BindgenContext::gen "
                    "before code generation starts" % f, b.loc(n))
            continue
        taut, _ = implies(T, need)
        if taut:
            rep.ok("unwrap:%s@%s" % (f, short(b)), "filled unconditionally by %s" % where[f], b.loc(n))
            continue
        check_site(f, need, b, n, T, 3, "")
    rep.note("conditions", {f: f_str(c) for f, c in sorted(cond.items())})


# ---------------------------------------------------------------------------------------------
# R12.2 taint
# ---------------------------------------------------------------------------------------------
TEXT_RE = re.compile(r"\bstr\b|\bString\b|\bCow<|\bOsStr|\bPathBuf\b|\bPath\b")
GENERIC_RE = re.compile(r"^&?(?:mut )?[A-Z]\w?$")
SCALAR_RE = re.compile(r"^&*(?:mut )?(bool|u8|u16|u32|u64|u128|usize|i8|i16|i32|i64|i128|isize|f32|f64|char|\(\))$")
LOOKUPS = {"get", "get_mut", "get_key_value", "remove", "remove_entry", "take", "first", "last", "nth", "strip_prefix", "strip_suffix",
           "trim_start_matches", "trim_end_matches", "split", "rsplit", "splitn", "rsplitn", "split_once", "rsplit_once",
           "filter", "find", "skip", "take_while", "skip_while", "position", "get_unchecked"}
MUTATORS = {"push", "push_str", "extend", "extend_from_slice", "insert", "append", "push_back", "push_front", "insert_str",
            "entry", "or_insert", "or_insert_with", "or_default"}


def text_fields(prog, adt_path):
    adt = prog.adts.get(adt_path)
    out = {}
    if not adt:
        return out
    for v in adt["variants"]:
        for f in v["fields"]:
            t = prog.types[f["ty"]]
            if re.search(r"\bstd::string::String\b|\bBox<str>|\bCow<'?\w*,? ?str>|&'?\w* ?str\b", t):
                out[f["name"]] = t
    return out


class Taint:
    """Backward, demand-driven: which user-text sources may an expression derive from?

    Labels: 'options.<field>' / 'annotation.<field>' / ('P', i) = i-th parameter of the current body."""

    def __init__(self, prog):
        self.prog = prog
        self.ix = index(prog)
        self.src = {}
        for f in text_fields(prog, OPT):
            self.src[(OPT, f)] = "options." + f
        for f in text_fields(prog, ANN):
            self.src[(ANN, f)] = "annotation." + f
        self.memo = {}
        self.busy = set()
        self.ret_memo = {}
        self.mut_idx = {}
        self.stored = {}
        self._stored_text()

    # -- user text parked in a field of the IR and read back later ----------------------------
    def _stored_text(self):
        """`*name = Some(format!("{}{n}", options.anon_fields_prefix))` stores option text in `FieldData::name`; whoever reads that
        field later handles user text.  Every assignment to a text-typed field of a crate type whose right-hand side derives from a
        source makes the field a (derived) source carrying the original label.  Two rounds (text stored from stored text)."""
        for _ in range(2):
            new = {}
            for b in self.prog.bodies.values():
                if b.path.startswith("options::") or "::tests::" in b.path:
                    continue
                for n in b.nodes:
                    if n["k"] != "Assign":
                        continue
                    l = strip(n["l"])
                    tgt = None
                    if l.get("k") == "Field" and l.get("adt") and l.get("adt") not in (OPT, ANN):
                        tgt = (l["adt"], l["f"])
                    elif l.get("k") in ("Unary", "Local"):
                        x = strip(l["e"]) if l.get("k") == "Unary" else l
                        d = b.local_def.get(x.get("id")) if x.get("k") == "Local" else None
                        if d and d[1] and d[1][-1][0] and not str(d[1][-1][0]).startswith(("std::", "tuple")):
                            tgt = (re.sub(r"::\w+$", "", d[1][-1][0]) if d[1][-1][0] not in self.prog.adts else d[1][-1][0], d[1][-1][1])
                            if tgt[0] not in self.prog.adts:
                                tgt = (d[1][-1][0], d[1][-1][1])
                    if tgt is None or tgt in self.src or not TEXT_RE.search(b.ty(n["l"]) or ""):
                        continue
                    labs = {x for x in self.close(b, self.expr(b, n["r"])) if isinstance(x, str)}
                    if labs:
                        new[tgt] = sorted(labs)[0]
                        self.stored[tgt] = (sorted(labs), b.loc(n))
            if not new:
                break
            self.src.update(new)
            self.memo.clear()
            self.ret_memo.clear()

    # -- mutation sites of mutable locals, per body ------------------------------------------
    def mutations(self, body):
        m = self.mut_idx.get(body.path)
        if m is None:
            m = defaultdict(list)
            for n in body.nodes:
                k = n["k"]
                if k in ("Assign", "AssignOp"):
                    l = n["l"]
                    while l.get("k") in ("Field", "Index", "Unary", "AddrOf"):
                        l = l.get("base") or l.get("e")
                    if l.get("k") == "Local":
                        m[l["id"]].append(n["r"])
                elif k == "MCall" and n["name"] in MUTATORS:
                    r = n["recv"]
                    while r.get("k") in ("AddrOf", "Unary", "Field", "Index") or \
                            (r.get("k") == "MCall" and r["name"] in MUTATORS | {"as_mut", "borrow_mut", "get_mut", "last_mut"}):
                        r = r.get("e") or r.get("base") or r.get("recv")
                    if r.get("k") == "Local":
                        m[r["id"]].extend(n["args"])
                elif k in ("Call", "MCall") and callee_of(n) in self.prog.bodies:
                    # `helper(&mut local, other…)`: the helper may move text from the other actuals into local
                    actual = ([n["recv"]] if k == "MCall" else []) + list(n["args"])
                    for i, a in enumerate(actual):
                        if a.get("k") == "AddrOf" and a.get("mut") and strip(a).get("k") == "Local":
                            m[strip(a)["id"]].extend(x for j, x in enumerate(actual) if j != i)
                        elif a.get("k") == "AddrOf" and strip(a).get("k") == "Local" and \
                                (body.ty(a) or "").startswith("&mut "):
                            m[strip(a)["id"]].extend(x for j, x in enumerate(actual) if j != i)
            self.mut_idx[body.path] = m
        return m

    def textual(self, body, n):
        t = body.ty(n) or ""
        # `name: S where S: AsRef<str>` — a bare generic parameter may carry text as well
        return bool(TEXT_RE.search(t)) or bool(GENERIC_RE.match(t))

    def expr(self, body, n, depth=4):
        key = (body.path, n["_i"], depth)
        if key in self.memo:
            return self.memo[key]
        if key in self.busy:
            return frozenset()
        self.busy.add(key)
        try:
            out = frozenset(self._expr(body, n, depth))
        finally:
            self.busy.discard(key)
        self.memo[key] = out
        return out

    def _union(self, body, nodes, depth):
        out = set()
        for x in nodes:
            if x is not None:
                out |= self.expr(body, x, depth)
        return out

    def _expr(self, body, n, depth):
        k = n["k"]
        t = body.ty(n) or ""
        if SCALAR_RE.match(t):
            return set()
        if k == "Lit":
            return set()
        if k == "Path":
            return set()
        if k == "Field":
            lab = self.src.get((n.get("adt"), n["f"]))
            if lab:
                return {lab}
            return self.expr(body, n["base"], depth)
        if k == "Local":
            return self._local(body, n, depth)
        if k in ("AddrOf", "Cast", "Unary", "Try"):
            return self.expr(body, n["e"], depth)
        if k == "Index":
            return self.expr(body, n["base"], depth)
        if k in ("Tup", "Array"):
            return self._union(body, n["es"], depth)
        if k == "Struct":
            return self._union(body, [f["e"] for f in n["fs"]] + [n.get("base")], depth)
        if k == "Block":
            return self.expr(body, n["tail"], depth) if n.get("tail") is not None else set()
        if k == "If":
            return self._union(body, [n["then"], n.get("else")], depth)
        if k == "Match":
            return self._union(body, [a["body"] for a in n["arms"]], depth)
        if k == "Binary":
            return self._union(body, [n["l"], n["r"]], depth)
        if k == "Closure":
            return self.expr(body, n["body"], depth)
        if k in ("Call", "MCall"):
            return self._call(body, n, depth)
        if k in ("LetCond",):
            return set()
        return set()

    def _call(self, body, n, depth):
        callee = callee_of(n)
        actual = ([n["recv"]] if n["k"] == "MCall" else []) + list(n.get("args") or [])
        if callee.startswith("callbacks::ParseCallbacks::") or n.get("trait") == "callbacks::ParseCallbacks":
            return set()  # strings returned by callbacks are excluded by the property
        g = self.prog.getters().get(callee)
        if g and len(actual) == 1:
            lab = self.src.get(g)
            if lab:
                return {lab}
            return self.expr(body, actual[0], depth)
        cb = self.prog.bodies.get(callee)
        if cb is not None:
            if depth <= 0:
                return set()
            labs, params = self.ret_summary(cb, depth - 1)
            out = set(labs)
            for i in params:
                if i < len(actual):
                    out |= self.expr(body, actual[i], depth)
            return out
        if n["k"] == "Call" and "f" in n and not callee:
            # call through a local (closure / fn parameter)
            return self._union(body, [n["f"]] + actual, depth)
        if callee and callee.split("::")[0] in self.prog_roots():
            # unresolved call of a crate trait method: not a simple helper
            return set()
        if n["k"] == "MCall" and n["name"] in LOOKUPS:
            # the result comes out of the container, not out of the key / needle
            return self.expr(body, n["recv"], depth)
        return self._union(body, actual, depth)

    def prog_roots(self):
        r = getattr(self, "_roots", None)
        if r is None:
            r = {p.split("::")[0] for p in self.prog.bodies if not p.startswith("<")}
            r |= {t.split("::")[0] for t in self.prog.traits}
            self._roots = r
        return r

    def ret_summary(self, cb, depth):
        key = (cb.path, depth)
        if key in self.ret_memo:
            return self.ret_memo[key]
        self.ret_memo[key] = (frozenset(), frozenset())  # recursion guard
        vals = []
        if cb.root.get("k") == "Block":
            if cb.root.get("tail") is not None:
                vals.append(cb.root["tail"])
        else:
            vals.append(cb.root)
        for n in cb.nodes:
            if n["k"] == "Ret" and n.get("e") is not None and not self._in_closure(cb, n):
                vals.append(n["e"])
        labs = set()
        for v in vals:
            labs |= self.expr(cb, v, depth)
        params = frozenset(l[1] for l in labs if isinstance(l, tuple))
        res = (frozenset(l for l in labs if not isinstance(l, tuple)), params)
        self.ret_memo[key] = res
        return res

    def _in_closure(self, body, n):
        return any(a["k"] == "Closure" for a in body.ancestors(n))

    def _local(self, body, n, depth):
        lid = n["id"]
        d = body.local_def.get(lid)
        if d is None:
            return set()
        origin, path, pat = d
        out = set()
        o = origin[0]
        if o == "let":
            init = origin[1].get("init")
            if init is not None:
                out |= self.expr(body, init, depth)
        elif o == "letcond":
            out |= self.expr(body, origin[1]["init"], depth)
        elif o == "for":
            out |= self.expr(body, origin[1]["iter"], depth)
        elif o == "arm":
            out |= self.expr(body, origin[1]["scrut"], depth)
        elif o == "cparam":
            clo = origin[1]
            par = body.parent[clo["_i"]]
            while par is not None and par["k"] in ("AddrOf", "Block") and par.get("k") != "Call":
                par = body.parent[par["_i"]]
            if par is not None and par["k"] in ("MCall", "Call"):
                callee = callee_of(par)
                if callee not in self.prog.bodies:
                    actual = ([par["recv"]] if par["k"] == "MCall" else []) + list(par.get("args") or [])
                    out |= self._union(body, [a for a in actual if strip(a) is not clo and a is not clo], depth)
        elif o == "param":
            if self.textual(body, n) or self._param_textual(body, origin[1]):
                out.add(("P", origin[1]))
        for r in self.mutations(body).get(lid, ()):
            out |= self.expr(body, r, depth)
        return out

    def _param_textual(self, body, i):
        ins = body.fact.get("inputs") or []
        if i < len(ins):
            t = ins[i]
            t = self.prog.types[t] if isinstance(t, int) else str(t)
            return bool(TEXT_RE.search(t))
        return False

    # -- resolve parameter labels through the callers ---------------------------------------
    def close(self, body, labs, seen=None, depth=4):
        """replace ('P', i) labels by what the callers pass; returns (source labels, how)"""
        seen = set() if seen is None else seen
        out = set()
        for l in labs:
            if not isinstance(l, tuple):
                out.add(l)
                continue
            key = (body.path, l[1])
            if key in seen or depth <= 0:
                continue
            seen.add(key)
            for cb, c in self.ix.callers_of(body):
                a = arg_of(c, l[1])
                if a is None:
                    continue
                out |= self.close(cb, self.expr(cb, a), seen, depth - 1)
        return out


PARSE_FNS = ("syn::parse_str", "syn::parse2", "syn::parse_file", "syn::parse")


def parse_calls(body):
    """(call node, input expression, kind) for every string/token → syntax conversion in body."""
    for n in body.nodes:
        k = n["k"]
        if k not in ("Call", "MCall"):
            continue
        callee = callee_of(n)
        tcallee = n.get("callee") or ""
        if k == "Call" and (tcallee.endswith("std::str::FromStr>::from_str") or tcallee == "std::str::FromStr::from_str"
                            or callee.endswith("std::str::FromStr>::from_str")):
            if n["args"]:
                yield n, n["args"][0], "from_str"
        elif k == "MCall" and n["name"] == "parse" and re.search(r"\bstr>::parse$|^core::str::<impl str>::parse$|str::parse$", tcallee):
            yield n, n["recv"], "parse"
        elif k == "Call" and tcallee in PARSE_FNS:
            if n["args"]:
                yield n, n["args"][0], tcallee.split("::")[-1]


def consumer(body, n):
    """How is the Result of parse call n consumed?  Climb the method chain it is the receiver of.
    returns ('panic', node) | ('handled', node)"""
    cur = n
    while True:
        p = body.parent[cur["_i"]]
        if p is None:
            return "handled", cur
        if p["k"] == "MCall" and p["recv"] is cur:
            nm = p["name"]
            if nm in ("unwrap", "expect", "unwrap_unchecked", "expect_err", "unwrap_err"):
                return "panic", p
            if nm == "unwrap_or_else" and p["args"]:
                c = strip(p["args"][0])
                if c.get("k") == "Closure" and body.diverges(c["body"]):
                    return "panic", p
                return "handled", p
            if nm in ("or_else", "map_err", "map", "and_then", "or", "inspect_err", "inspect"):
                cur = p
                continue
            return "handled", p
        if p["k"] in ("AddrOf", "Cast") or (p["k"] == "Block" and p.get("tail") is cur and not p["stmts"]):
            cur = p
            continue
        return "handled", p


@RULES.rule("R12.2", "user text (string options, header annotations) never reaches an unwrapped lexer/parser call", floor=29)
def r12_2(rep):
    """Breaks (today's tree): `--module-raw-line root '('`, `--ctypes-prefix '('`,
    `/// <div rustbindgen attribute="((("></div>` all end in `LexError` → `unwrap()` → panic."""
    prog = rep.prog
    ta = Taint(prog)
    rep.need(any(k[0] == OPT for k in ta.src), "text-bearing fields of " + OPT)
    rep.need(any(k[0] == ANN for k in ta.src), "text-bearing fields of " + ANN)
    n_sinks = 0
    tokens_in = []
    for b in prog.bodies.values():
        if b.path.startswith("options::cli::") or "::tests::" in b.path:
            continue
        for call, inp, kind in parse_calls(b):
            how, at = consumer(b, call)
            ity = b.ty(inp) or ""
            if kind in ("parse2", "parse") and "TokenStream" in ity:
                tokens_in.append("%s@%s" % (kind, short(b)))
                continue
            labs = ta.close(b, ta.expr(b, inp))
            n_sinks += 1
            if how != "panic":
                rep.ok("parse-handled:%s@%s" % (kind, short(b)),
                       "failure of `%s` is handled as a value (%s); input sources: %s" % (kind, at.get("name") or at["k"], sorted(labs) or "-"), b.loc(call))
                continue
            if not labs:
                rep.ok("unwrap-of-fixed-text:%s@%s" % (kind, short(b)), "input `%s` derives from no user-text source" % b.canon(inp, 3)[:120], b.loc(call))
                continue
            for lab in sorted(labs):
                rep.bad("unwrap-of-user-text:%s@%s" % (lab, short(b)),
                        "`%s(..).%s` panics when the user-supplied text of `%s` does not lex/parse; the failure must become an error value"
                        % (kind, at.get("name"), lab), b.loc(call))
    rep.note("sinks", n_sinks)
    rep.note("token-stream parse sites (not tracked)", sorted(tokens_in))
    rep.note("sources", sorted(ta.src.values()))


# ---------------------------------------------------------------------------------------------
# R12.3 error values
# ---------------------------------------------------------------------------------------------
def _bool_lits(p):
    out = set()
    for v in pat_variants(p):
        out |= {True, False} if v == "_" else ({True} if v == "lit:True" else {False} if v == "lit:False" else set())
    return out


def cond_guards(body, node):
    """guard chain of node as [(polarity, condition expression)]: `if`/`&&`/`||`/early exits, plus the arms of a
    `match` over a bool scrutinee (`match c { true => …, false => … }` ≡ `if c {…} else {…}`).
    Non-boolean guards are returned as (True, ('arm', match, i)) / (True, ('letelse', stmt))."""
    out = []
    for pol, kind, g in body.guards(node):
        if kind == "cond":
            out.append((pol, g))
        elif kind == "arm":
            m, i = g
            if body.ty(m["scrut"]) == "bool":
                mine = _bool_lits(m["arms"][i]["pat"])
                for a in m["arms"][:i]:
                    if "guard" not in a:
                        mine -= _bool_lits(a["pat"])
                if len(mine) == 1:
                    out.append((True in mine, m["scrut"]))
                    continue
            out.append((True, ("arm", m, i)))
        else:
            out.append((True, ("letelse", g)))
    return out


def atoms_of(body, node):
    """flattened guard atoms [(canon, polarity, node)]: `!`, `&&`, `||`-under-negation and immutable bool locals
    are expanded; bool matches count as conditions."""
    out = []

    def atoms(e, pol):
        e = strip(e)
        if e["k"] == "Unary" and e["op"] == "!":
            return atoms(e["e"], not pol)
        if e["k"] == "Binary" and e["op"] == "&&" and pol:
            return atoms(e["l"], True) + atoms(e["r"], True)
        if e["k"] == "Binary" and e["op"] == "||" and not pol:
            return atoms(e["l"], False) + atoms(e["r"], False)
        if e["k"] == "Local" and body.ty(e) == "bool":
            init = body.local_init(e["id"])
            if init is not None:
                return atoms(init, pol)
        return [(body.canon(e, 6), pol, e)]

    for pol, g in cond_guards(body, node):
        if isinstance(g, tuple):
            if g[0] == "arm":
                out.append(("arm:%s:%s" % (body.canon(g[1]["scrut"], 4), "|".join(sorted(pat_variants(g[1]["arms"][g[2]]["pat"])))), True, g[1]))
            else:
                out.append(("letelse:" + body.canon(g[1].get("init", {}), 4), True, g[1]))
        else:
            out += atoms(g, pol)
    return out


def returned_as_err(body, n):
    """constructor application n is handed out as `Err(n)` by return / tail / `?`."""
    p = body.parent[n["_i"]]
    if p is None:
        return False
    if p["k"] == "Call" and (p.get("ctor_of") or p.get("ctor") or "").endswith("::Err"):
        q = body.parent[p["_i"]]
        while q is not None and q["k"] in ("Block",) and q.get("tail") is not None:
            q2 = body.parent[q["_i"]]
            if q2 is None:
                return True  # tail of the function body
            q = q2
        return q is not None and (q["k"] in ("Ret", "Try") or q["k"] in ("If", "Match"))
    if p["k"] == "MCall" and p["name"] == "map_err":
        q = body.parent[p["_i"]]
        return q is not None and q["k"] in ("Try", "Ret") or (q is not None and q["k"] == "Block")
    return False


@RULES.rule("R12.3", "every failure class is reported as its BindgenError value, before clang/AST work that would mask it", floor=21)
def r12_3(rep):
    """Breaks: `d.severity() > CXDiagnostic_Error` lets a header with plain errors through to the AST visit
    (bindings for a rejected header); testing `md.is_file()` instead of the three-way triage turns a missing
    header into a clang diagnostic instead of `NotExist`."""
    prog = rep.prog
    ix = index(prog)
    adt = rep.need(prog.adts.get(ERR), "enum " + ERR)
    bgen = rep.need(prog.fn("Builder::generate"), "Builder::generate")
    gen = rep.need(prog.fn("Bindings::generate"), "Bindings::generate")
    parse = rep.need(prog.fn("parse"), "fn parse (lib.rs)")
    reach = ix.reachable([bgen.path])
    rep.check(gen.path in reach, "reach:Bindings::generate", "Builder::generate reaches Bindings::generate", bgen.loc(bgen.root))

    # -- every variant is constructed and handed out on a path from Builder::generate
    ctor_sites = defaultdict(list)
    for b in prog.bodies.values():
        for n in b.nodes:
            if n["k"] == "Call" and (n.get("ctor_of") or "").startswith(ERR + "::"):
                ctor_sites[n["ctor_of"]].append((b, n))
            elif n["k"] == "Path" and (n.get("ctor_of") or "").startswith(ERR + "::") and "Fn" in (n.get("dk") or ""):
                par = b.parent[n["_i"]]
                if not (par is not None and par["k"] == "Call" and par.get("f") is n):
                    ctor_sites[n["ctor_of"]].append((b, n))
    for v in adt["variants"]:
        sites = ctor_sites.get(v["path"], [])
        good = [(b, n) for b, n in sites if b.path in reach and returned_as_err(b, n)]
        rep.check(bool(good), "variant:" + v["name"],
                  "constructed and returned as Err in %s" % ", ".join(sorted({short(b) for b, _ in good})) if good else
                  "no `Err(%s(..))` is returned on any path from Builder::generate (%d construction sites)" % (v["path"], len(sites)),
                  good[0][0].loc(good[0][1]) if good else "")

    def ctor_in(body, variant):
        s = [n for b, n in ctor_sites.get(ERR + "::" + variant, []) if b is body]
        return s

    # -- parse(): clang errors → ClangDiagnostic before the AST is visited ------------------------
    cmp_nodes = []
    for n in parse.walk():
        if n["k"] == "Binary" and n["op"] in (">=", "<=", ">", "<", "==", "!="):
            l, r = strip(n["l"]), strip(n["r"])
            sev = lambda x: x.get("k") == "MCall" and callee_of(x) == "clang::Diagnostic::severity"
            if sev(l) or sev(r):
                cmp_nodes.append(n)
    rep.need(cmp_nodes, "a comparison of clang::Diagnostic::severity() in fn parse")
    good_cmp = []
    for n in cmp_nodes:
        l, r = strip(n["l"]), strip(n["r"])
        op = n["op"]
        if not (l.get("k") == "MCall"):
            l, r = r, l
            op = {">=": "<=", "<=": ">=", ">": "<", "<": ">"}.get(op, op)
        const = r.get("def", "") if r.get("k") == "Path" else ""
        ok = (op == ">=" and const == "clang_sys::CXDiagnostic_Error") or (op == ">" and const == "clang_sys::CXDiagnostic_Warning")
        rep.check(ok, "diag-threshold", "a diagnostic counts as an error iff `severity() %s %s`" % (op, const or parse.canon(r, 2)) +
                  ("" if ok else " — must be `>= CXDiagnostic_Error` (Error and Fatal)"), parse.loc(n))
        if ok:
            good_cmp.append(n)

    def resolves_to(body, g, targets):
        e = strip(g)
        hops = 0
        while e.get("k") == "Local" and hops < 4:
            init = body.local_init(e["id"])
            if init is None:
                break
            e = strip(init)
            hops += 1
        return any(e is t for t in targets)

    rets = ctor_in(parse, "ClangDiagnostic")
    rep.need(rets, "Err(BindgenError::ClangDiagnostic(..)) in fn parse")
    loops = [n for n in parse.walk() if n["k"] == "For" and "clang::TranslationUnit::diags" in parse.canon(n["iter"], 4)]
    rep.check(len(loops) >= 1, "diag-loop", "fn parse iterates over translation_unit().diags()", parse.loc(parse.root))
    for c in rets:
        msg = strip(c["args"][0])
        acc = None
        if msg.get("k") == "Local":
            d = parse.local_def.get(msg["id"])
            if d and d[0][0] == "letcond" and strip(d[0][1]["init"]).get("k") == "Local":
                acc = strip(d[0][1]["init"])["id"]
            elif d and d[0][0] == "arm" and strip(d[0][1]["scrut"]).get("k") == "Local":
                acc = strip(d[0][1]["scrut"])["id"]
            elif d and d[0][0] == "let":
                acc = msg["id"]
        if not rep.check(acc is not None, "diag-message-source", "the ClangDiagnostic payload is the accumulated diagnostics text", parse.loc(c)):
            continue
        # the return is guarded by nothing but "some error was recorded"
        gs = cond_guards(parse, c)
        only = len(gs) == 1 and gs[0][0] and not isinstance(gs[0][1], tuple) and gs[0][1]["k"] == "LetCond" and \
            any(v.endswith("::Some") for v in pat_variants(gs[0][1]["pat"])) and strip(gs[0][1]["init"]).get("id") == acc
        if not only and len(gs) == 1 and isinstance(gs[0][1], tuple) and gs[0][1][0] == "arm":
            # `match error { Some(message) => return Err(..), None => {} }`
            m, i = gs[0][1][1], gs[0][1][2]
            only = strip(m["scrut"]).get("id") == acc and all(v.endswith("::Some") for v in pat_variants(m["arms"][i]["pat"])) \
                and "guard" not in m["arms"][i]
        rep.check(only, "diag-return-unconditional", "`return Err(ClangDiagnostic)` depends only on an error having been recorded "
                  "(guards: %s)" % [a for a, _, _ in atoms_of(parse, c)], parse.loc(c))
        # the accumulator is written exactly under the severity test, inside the loop over all diagnostics
        writes = []
        for n in parse.walk():
            if n["k"] == "MCall" and n["name"] in ("get_or_insert_with", "get_or_insert", "insert", "replace") and strip(n["recv"]).get("id") == acc:
                writes.append(n)
            elif n["k"] == "Assign" and strip(n["l"]).get("id") == acc and is_some_ctor(n["r"]):
                writes.append(n)
        rep.check(bool(writes), "diag-recorded", "the error accumulator is written somewhere", parse.loc(c))
        for w in writes:
            conds = cond_guards(parse, w)
            under = any(pol and not isinstance(g, tuple) and resolves_to(parse, g, good_cmp) for pol, g in conds)
            extra = [g for pol, g in conds if isinstance(g, tuple) or not resolves_to(parse, g, good_cmp)]
            inloop = any(a in loops for a in parse.ancestors(w))
            rep.check(under and not extra and inloop, "diag-recorded-iff-error",
                      "every diagnostic with error severity is recorded (guards: %s; in diag loop: %s)" %
                      ([a for a, _, _ in atoms_of(parse, w)], inloop), parse.loc(w))
        # before the AST is visited
        visits = [n for n in parse.walk() if n["k"] in ("Call", "MCall") and
                  (callee_of(n).startswith("clang::Cursor::visit") or callee_of(n) == "parse_one" or
                   callee_of(n) == "clang::TranslationUnit::cursor" or callee_of(n) == CTX + "::with_module")]
        rep.need(visits, "AST visit calls in fn parse")
        first = min(n["_i"] for n in visits)
        rep.check(c["_i"] < first and all(l["_i"] < c["_i"] for l in loops), "diag-before-visit",
                  "diagnostics are scanned and the error returned before the first AST access", parse.loc(c))
    # parse() is called with `?` in Bindings::generate, before codegen
    pcalls = [n for n in gen.calls(lambda c: callee_of(c) == parse.path)]
    ccalls = [n for n in gen.calls(lambda c: callee_of(c) == "codegen::codegen")]
    rep.need(pcalls, "call of parse in Bindings::generate")
    rep.need(ccalls, "call of codegen::codegen in Bindings::generate")
    for n in pcalls:
        p = gen.parent[n["_i"]]
        rep.check(p is not None and p["k"] in ("Try", "Ret") and not [g for g in gen.guards(n)], "parse-error-propagated",
                  "`parse(&mut context)?` — unconditional and propagated", gen.loc(n))
        rep.check(all(n["_i"] < c["_i"] for c in ccalls), "parse-before-codegen", "parse runs before codegen", gen.loc(n))

    # -- path triage in Bindings::generate --------------------------------------------------------
    news = [n for n in gen.calls(lambda c: callee_of(c) in (CTX + "::new", "clang::TranslationUnit::parse"))]
    rep.need(news, "BindgenContext::new call in Bindings::generate")
    first_clang = min(n["_i"] for n in news)

    def triage(variant, want, what):
        sites = ctor_in(gen, variant)
        if not sites:
            rep.bad("triage:" + variant, "Bindings::generate never constructs BindgenError::%s" % variant, gen.loc(gen.root))
            return
        for c in sites:
            atoms = atoms_of(gen, c)
            miss = []
            for sub, pol in want:
                if not any(all(s in a for s in sub) and p == pol for a, p, _ in atoms):
                    miss.append(("" if pol else "!") + sub[0])
            from_header = any("input_headers" in a for a, _, _ in atoms)
            # nothing else may decide: only the header path and its metadata
            allowed = ("std::fs::Metadata::is_dir(", "::can_read(", "= " + MD, ".options::BindgenOptions::input_headers")
            extra = [("" if p else "!") + a[:90] for a, p, _ in atoms if not any(x in a for x in allowed)]
            rep.check(not miss and not extra and from_header and c["_i"] < first_clang and returned_as_err(gen, c), "triage:" + variant,
                      "%s → %s%s%s" % (what, variant, "" if not miss else " — guard lacks %s; has %s" % (miss, [("" if p else "!") + a[:90] for a, p, _ in atoms]),
                                       "" if not extra else " — also depends on %s" % extra),
                      gen.loc(c))

    MD = "std::fs::metadata("
    triage("FolderAsHeader", [(("std::fs::Metadata::is_dir(", MD), True)], "metadata(last input header).is_dir()")
    triage("InsufficientPermissions", [(("::can_read(", "std::fs::Metadata::permissions(", MD), False),
                                       (("std::fs::Metadata::is_dir(", MD), False)], "not a directory and !can_read(permissions)")
    triage("NotExist", [(("::Ok(", "= " + MD), False)], "metadata(last input header) fails")
    # can_read looks at the mode bits (unix)
    cr = [b for p, b in prog.bodies.items() if p.startswith(gen.path + "::") and p.endswith("::can_read")]
    rep.need(cr, "nested fn can_read")
    for b in cr:
        modes = [n for n in b.calls(lambda c: c["k"] == "MCall" and c["name"] == "mode")]
        lits = [n.get("v") for n in b.walk() if n["k"] == "Lit" and isinstance(n.get("v"), int) and not isinstance(n.get("v"), bool)]
        rep.check(bool(modes) and any(v and v & 0o400 for v in lits), "can-read-mode-bits",
                  "can_read tests the read bits of the file mode (literals %s)" % lits, b.loc(b.root))

    # -- Builder::generate: unsupported edition ---------------------------------------------------
    for c in ctor_in(bgen, "UnsupportedEdition") or [None]:
        if c is None:
            rep.bad("edition-check", "Builder::generate never constructs UnsupportedEdition", bgen.loc(bgen.root))
            continue
        atoms = atoms_of(bgen, c)
        ok = any("features::RustEdition::is_available(" in a and "rust_edition" in a and "rust_target" in a and not p for a, p, _ in atoms)
        calls = [n for n in bgen.calls(lambda x: callee_of(x) == gen.path)]
        rep.check(ok and returned_as_err(bgen, c) and calls and all(c["_i"] < n["_i"] for n in calls), "edition-check",
                  "`!edition.is_available(rust_target)` → UnsupportedEdition before Bindings::generate (guards %s)" % [("" if p else "!") + a[:80] for a, p, _ in atoms],
                  bgen.loc(c))


# ---------------------------------------------------------------------------------------------
# R12.4 phase typestate
# ---------------------------------------------------------------------------------------------
def phase_asserts(body):
    """[(macro, positive?, node)] for `assert!/debug_assert!([!]ctx.in_codegen_phase())` in body."""
    out = []
    for n in body.nodes:
        if n["k"] == "MCall" and callee_of(n) == CTX + "::in_codegen_phase":
            neg = 0
            cur = n
            iff = None
            for a in body.ancestors(n):
                if a["k"] == "Unary" and a["op"] == "!":
                    neg += 1
                    cur = a
                elif a["k"] == "If" and a["cond"] is cur:
                    iff = a
                    break
                else:
                    break
            if iff is None or not body.diverges(iff["then"]):
                continue
            mac = body.macro_name(iff) or ""
            if mac.split("::")[-1] not in ("assert", "debug_assert"):
                continue
            # `assert!(c)` expands to `if !c { panic }`
            out.append((mac.split("::")[-1], neg % 2 == 1, n))
    return out


PARSE_ROOT_RE = re.compile(r"^(ir::item::Item::parse|ir::item::Item::from_ty\w*|ir::context::BindgenContext::add_item|"
                           r"<.* as parse::ClangSubItemParser>::parse|parse_one|parse)$")


@RULES.rule("R12.4", "codegen-phase-only functions are unreachable from the parse-phase entry points", floor=23)
def r12_4(rep):
    """Breaks: calling `ctx.allowlisted_items()` (or any `lookup_*`) from `Item::from_ty_with_id` unwraps a result
    that is only computed in `BindgenContext::gen` → panic on every header."""
    prog = rep.prog
    ix = index(prog)
    fields = option_fields(prog, CTX)
    new = rep.need(prog.fn(CTX + "::new"), CTX + "::new")
    # Option fields that start as None
    lit = [n for n in new.walk() if n["k"] == "Struct" and n.get("adt") == CTX]
    rep.need(lit, "BindgenContext { .. } literal in BindgenContext::new")
    none_fields = {f["f"] for f in lit[0]["fs"] if strip(f["e"]).get("k") == "Path" and strip(f["e"])["def"].endswith("::None")}
    gen = rep.need(prog.fn(CTX + "::gen"), CTX + "::gen")
    gen_reach = ix.reachable([gen.path])
    # which of them are filled only in the codegen phase (every Some-assignment is reachable from gen only)
    roots = sorted(p for p in prog.bodies if PARSE_ROOT_RE.match(p) and p not in ("parse",))
    rep.need([r for r in roots if r.endswith("ClangSubItemParser>::parse")], "ClangSubItemParser::parse impls")
    rep.need([r for r in roots if r.startswith("ir::item::Item::from_ty")], "Item::from_ty*")
    reach = ix.reachable(roots)
    phase_fields = set()
    for b in prog.bodies.values():
        for n in b.nodes:
            if n["k"] == "Assign" and n["l"].get("k") == "Field" and n["l"].get("adt") == CTX and n["l"]["f"] in none_fields \
                    and is_some_ctor(n["r"]):
                if b.path in gen_reach and b.path not in reach:
                    phase_fields.add(n["l"]["f"])
    hard = {}
    soft = {}
    for b in prog.bodies.values():
        for mac, positive, n in phase_asserts(b):
            if not positive:
                continue
            (hard if mac == "assert" else soft).setdefault(b.path, []).append(("%s!(in_codegen_phase())" % mac, n))
        for n in b.nodes:
            if n["k"] == "MCall" and n["name"] in ("unwrap", "expect"):
                f = ctx_field(n["recv"], fields)
                if f in phase_fields:
                    hard.setdefault(b.path, []).append(("unwrap of `%s` (computed in gen)" % f, n))
    rep.need(hard, "functions that assert the codegen phase / unwrap codegen-phase results")
    for p in sorted(hard):
        b = prog.bodies[p]
        what = sorted({w for w, _ in hard[p]})
        if p in reach:
            rep.bad("phase:" + short(b), "%s is reachable from the parse phase: %s" % ("; ".join(what), ix.chain(reach, p)), b.loc(hard[p][0][1]))
        else:
            rep.ok("phase:" + short(b), "; ".join(what), b.loc(hard[p][0][1]))
    rep.note("debug_assert-only phase checks reachable from the parse phase (not enforced)",
             sorted(short(prog.bodies[p]) for p in soft if p in reach and p not in hard))
    rep.note("parse-phase roots", roots)
    rep.note("reachable from parse phase", len(reach))

    # the phase flag: one field, set to true in `gen` only, before anything else
    flag_get = rep.need(prog.getters().get(CTX + "::in_codegen_phase"), "in_codegen_phase() as a getter of a field")
    writes = []
    for b in prog.bodies.values():
        for n in b.nodes:
            if n["k"] == "Assign" and n["l"].get("k") == "Field" and n["l"].get("adt") == flag_get[0] and n["l"]["f"] == flag_get[1]:
                writes.append((b, n))
    rep.check(len(writes) == 1 and writes[0][0] is gen and strip(writes[0][1]["r"]).get("v") is True and not gen.guards(writes[0][1]),
              "phase-flag-set-in-gen-only", "`%s` is written in: %s" % (flag_get[1], [short(b) for b, _ in writes]),
              writes[0][0].loc(writes[0][1]) if writes else "")
    init = [f for f in lit[0]["fs"] if f["f"] == flag_get[1]]
    rep.check(bool(init) and strip(init[0]["e"]).get("v") is False, "phase-flag-starts-false", "BindgenContext::new starts in the parse phase", new.loc(lit[0]))
    # gen is entered from codegen::codegen only, and codegen after parse (R12.3 parse-before-codegen)
    gcallers = {short(b) for b, _ in ix.callers_of(gen)}
    rep.check(gcallers == {"codegen::codegen"}, "gen-entered-from-codegen-only", "BindgenContext::gen is called from %s" % sorted(gcallers), gen.loc(gen.root))


# ---------------------------------------------------------------------------------------------
# R12.5 begin_parsing / finish_parsing balance
# ---------------------------------------------------------------------------------------------
class Balance:
    """Path-sensitive push/pop accounting over one body.  State = (depth, frozenset((local id, bool)))."""

    def __init__(self, body, is_push, is_pop):
        self.b = body
        self.is_push = is_push
        self.is_pop = is_pop
        self.exits = []  # (node, states)
        self.undecided = []
        self.underflow = []

    def has_sites(self, n):
        return any(x["k"] in ("Call", "MCall") and (self.is_push(x) or self.is_pop(x)) for x in self.b.walk(n))

    @staticmethod
    def _set(s, lid, val):
        env = dict(s[1])
        if lid in env and env[lid] != val:
            return None
        env[lid] = val
        return (s[0], frozenset(env.items()))

    @staticmethod
    def _forget(s, lid):
        return (s[0], frozenset((k, v) for k, v in s[1] if k != lid))

    def tracked(self, c):
        e = strip(c)
        pol = True
        while e.get("k") == "Unary" and e["op"] == "!":
            e = strip(e["e"])
            pol = not pol
        if e.get("k") == "Local" and self.b.ty(e) == "bool":
            return e["id"], pol
        return None, pol

    def ex(self, n, S):
        if not S or n is None:
            return S
        b = self.b
        k = n["k"]
        if k == "Block":
            for st in n["stmts"]:
                S = self.ex(st, S)
            if n.get("tail") is not None:
                S = self.ex(n["tail"], S)
            return S
        if k == "Let":
            S = self.ex(n.get("init"), S)
            if "els" in n:
                self.ex(n["els"], S)
            return S
        if k in ("Semi", "ExprStmt"):
            S = self.ex(n["e"], S)
            return set() if b.diverges(n["e"]) else S
        if k == "If":
            S = self.ex(n["cond"], S)
            lid, pol = self.tracked(n["cond"])
            if lid is not None:
                St = {x for x in (self._set(s, lid, pol) for s in S) if x}
                Se = {x for x in (self._set(s, lid, not pol) for s in S) if x}
            else:
                St = Se = S
            A = self.ex(n["then"], set(St))
            B = self.ex(n["else"], set(Se)) if "else" in n else set(Se)
            return A | B
        if k == "Match":
            S = self.ex(n["scrut"], S)
            out = set()
            for a in n["arms"]:
                Sa = set(S)
                if "guard" in a:
                    Sa = self.ex(a["guard"], Sa)
                out |= self.ex(a["body"], Sa)
            return out
        if k == "Ret":
            S = self.ex(n.get("e"), S)
            self.exits.append((n, set(S)))
            return set()
        if k == "Try":
            S = self.ex(n["e"], S)
            self.exits.append((n, set(S)))
            return S
        if k in ("Loop", "While", "For"):
            if self.has_sites(n):
                self.undecided.append(n)
            if k == "For":
                S = self.ex(n["iter"], S)
            for x in b.walk(n):
                if x["k"] == "Ret" or x["k"] == "Try":
                    self.exits.append((x, set(S)))
            return S
        if k == "Closure":
            if self.has_sites(n):
                self.undecided.append(n)
            return S
        if k == "Binary" and n["op"] in ("&&", "||"):
            S1 = self.ex(n["l"], S)
            S2 = self.ex(n["r"], set(S1))
            return S1 | S2
        if k == "Assign":
            S = self.ex(n["r"], S)
            l = strip(n["l"])
            if l.get("k") == "Local":
                v = strip(n["r"])
                if v.get("k") == "Lit" and isinstance(v.get("v"), bool):
                    S = {(s[0], frozenset([(kk, vv) for kk, vv in s[1] if kk != l["id"]] + [(l["id"], v["v"])])) for s in S}
                else:
                    S = {self._forget(s, l["id"]) for s in S}
            return S
        if k in ("Call", "MCall"):
            if k == "MCall":
                S = self.ex(n["recv"], S)
            elif "f" in n and isinstance(n["f"], dict):
                S = self.ex(n["f"], S)
            for a in n.get("args") or []:
                S = self.ex(a, S)
            if self.is_push(n):
                S = {(s[0] + 1, s[1]) for s in S}
            elif self.is_pop(n):
                for s in S:
                    if s[0] <= 0:
                        self.underflow.append((n, s))
                S = {(s[0] - 1, s[1]) for s in S}
            if b.ty(n) == "!":
                return set()
            return S
        for _, c in kids(n):
            S = self.ex(c, S)
        if b.ty(n) == "!" and k not in ("Break", "Continue"):
            return set()
        return S

    def run(self):
        S = self.ex(self.b.root, {(0, frozenset())})
        if S:
            self.exits.append((self.b.root, S))
        return self


@RULES.rule("R12.5", "begin_parsing / finish_parsing are balanced on every path", floor=9)
def r12_5(rep):
    """Breaks: dropping the final `if valid_decl { ctx.finish_parsing(); }` leaves a stale entry on
    `currently_parsed_types`; a later `finish_parsing` of an enclosing type pops the wrong frame and its
    `assert_eq!(*finished.decl(), declaration_to_look_for)` fires (any struct with a struct-typed field)."""
    prog = rep.prog
    push_p, pop_p = CTX + "::begin_parsing", CTX + "::finish_parsing"
    rep.need(prog.fn(push_p), push_p)
    popb = rep.need(prog.fn(pop_p), pop_p)
    is_push = lambda n: callee_of(n) == push_p
    is_pop = lambda n: callee_of(n) == pop_p
    users = [b for b in prog.bodies.values() if any(n["k"] in ("Call", "MCall") and (is_push(n) or is_pop(n)) for n in b.nodes)]
    rep.need(users, "callers of begin_parsing / finish_parsing")
    # the pair is push/pop on one stack field
    pushes = [n for n in prog.fn(push_p).calls(lambda c: c["k"] == "MCall" and c["name"] == "push")]
    pops = [n for n in popb.calls(lambda c: c["k"] == "MCall" and c["name"] == "pop")]
    same = pushes and pops and strip(pushes[0]["recv"]).get("f") == strip(pops[0]["recv"]).get("f") and strip(pushes[0]["recv"]).get("adt") == CTX
    rep.check(bool(same), "stack-field", "begin_parsing pushes on / finish_parsing pops from the same BindgenContext stack", popb.loc(popb.root))
    for b in users:
        an = Balance(b, is_push, is_pop).run()
        nm = short(b)
        sites = [n for n in b.nodes if n["k"] in ("Call", "MCall") and (is_push(n) or is_pop(n))]
        rep.check(not an.undecided, "straight-line:" + nm, "%d begin/finish sites, none inside a loop or closure" % len(sites),
                  b.loc(an.undecided[0]) if an.undecided else b.loc(b.root))
        rep.check(not an.underflow, "no-foreign-pop:" + nm, "finish_parsing never pops a frame this call did not push" if not an.underflow else
                  "finish_parsing on a path where this call has pushed nothing (%s)" % self_env(b, an.underflow[0][1]),
                  b.loc(an.underflow[0][0]) if an.underflow else b.loc(b.root))
        seq = 0
        for node, S in an.exits:
            if not S:
                continue
            kind = "end" if node is b.root else ("try" if node["k"] == "Try" else "return")
            seq += 1
            badS = [s for s in S if s[0] != 0]
            rep.check(not badS, "balanced:%s#%s%d" % (nm, kind, seq),
                      "stack depth restored at this exit" if not badS else
                      "exit with %+d entries on currently_parsed_types when %s" % (badS[0][0], self_env(b, badS[0])), b.loc(node))


def self_env(body, s):
    names = {}
    for lid, d in body.local_def.items():
        names[lid] = d[2]["name"]
    return ", ".join("%s=%s" % (names.get(k, k), str(v).lower()) for k, v in sorted(s[1])) or "no tracked condition"


# ---------------------------------------------------------------------------------------------
# R12.6 structural fall-backs
# ---------------------------------------------------------------------------------------------
@RULES.rule("R12.6", "cycle detection and opaque fall-backs are in place", floor=6)
def r12_6(rep):
    """Breaks: without the seen-set test `ItemResolver::resolve` spins forever on `A → B → A` reference cycles
    (incomplete qualified dependent types, #2085); `.expect()` instead of the opaque fall-back in
    `resolve_typerefs` panics on any type clang cannot describe."""
    prog = rep.prog
    # -- ItemResolver::resolve ------------------------------------------------------------------
    res = rep.need(prog.fn("ir::context::ItemResolver::resolve"), "ItemResolver::resolve")
    loops = [n for n in res.walk() if n["k"] in ("Loop", "While")]
    rep.need(loops, "the loop of ItemResolver::resolve")
    loop = loops[0]
    # loop-carried variable(s): locals assigned inside the loop
    carried = set()
    for n in res.walk(loop):
        if n["k"] == "Assign" and strip(n["l"]).get("k") == "Local":
            carried.add(strip(n["l"])["id"])
    rep.check(bool(carried), "resolve:carried-id", "the loop advances a local id", res.loc(loop))
    ins = [n for n in res.walk(loop) if n["k"] == "MCall" and n["name"] == "insert" and "HashSet" in (res.ty(strip(n["recv"])) or "")
           and strip(n["recv"]).get("k") == "Local"]
    okc = False
    detail = "no `seen.insert(id)` test found in the loop"
    for n in ins:
        arg = strip(n["args"][0])
        seen_def = res.local_def.get(strip(n["recv"])["id"])
        outside = seen_def and seen_def[0][0] == "let" and not any(a is loop for a in res.ancestors(seen_def[0][1]))
        # the test `!insert(..)` guards a return / break
        exits = [x for x in res.walk(loop) if x["k"] in ("Ret", "Break") and
                 any(kind == "cond" and _same_test(res, g, n, pol) for pol, kind, g in res.guards(x))]
        first_assign = min([x["_i"] for x in res.walk(loop) if x["k"] == "Assign" and strip(x["l"]).get("id") in carried] or [1 << 30])
        uncond = not [g for g in res.guards(n) if g not in res.guards(loop) and g[1] != "cond" or
                      (g[1] == "cond" and g not in res.guards(loop) and not _contains(g[2], n))]
        if arg.get("k") == "Local" and arg["id"] in carried and outside and exits and n["_i"] < first_assign and uncond:
            okc = True
            detail = "every visited id is inserted into a set declared outside the loop; a repeated id leaves the loop"
        else:
            detail = "insert(arg carried=%s, set outside loop=%s, exit on repeat=%s, before advance=%s, unconditional=%s)" % (
                arg.get("k") == "Local" and arg.get("id") in carried, bool(outside), bool(exits), n["_i"] < first_assign, uncond)
    rep.check(okc, "resolve:cycle-detection", detail, res.loc(loop))
    # every other way round the loop advances the id; the default arm leaves
    # -- fall-backs ----------------------------------------------------------------------------
    for path, callee_re in (("ir::context::BindgenContext::resolve_typerefs", r"^ir::item::Item::from_ty\w*$"),
                            ("ir::item::Item::from_ty_or_ref_with_id", r"^ir::item::Item::from_ty\w*$")):
        b = rep.need(prog.fn(path), path)
        calls = [n for n in b.calls(lambda c: re.match(callee_re, callee_of(c)) and "ParseError>" in (b.ty(c) or ""))]
        rep.need(calls, "call of Item::from_ty* in " + path)
        for c in calls:
            how, at = consumer(b, c)
            fb = False
            if at.get("k") == "MCall" and at["name"] in ("unwrap_or_else", "or_else") and at["args"]:
                clo = strip(at["args"][0])
                if clo.get("k") == "Closure":
                    fb = any(callee_of(x) == "ir::item::Item::new_opaque_type" for x in b.calls(None, clo["body"]))
            elif at.get("k") == "Match":
                fb = any(callee_of(x) == "ir::item::Item::new_opaque_type" for x in b.calls(None, at))
            rep.check(how != "panic" and fb, "opaque-fallback:" + short(b),
                      "a failed type parse falls back to Item::new_opaque_type" if fb else
                      "the Result of %s is consumed by `%s` without an opaque fall-back" % (callee_of(c), at.get("name") or at["k"]), b.loc(c))
    # -- Type::from_clang_ty: unknown clang kinds are an error value, not a panic ------------------
    fct = rep.need(prog.fn("ir::ty::Type::from_clang_ty"), "Type::from_clang_ty")
    ms = [n for n in fct.walk() if n["k"] == "Match" and
          sum(1 for a in n["arms"] if any(v.startswith("clang_sys::CXType_") for v in pat_variants(a["pat"]))) >= 5]
    rep.need(ms, "the match over the clang type kind (CXType_* arms) in Type::from_clang_ty")
    for m in ms:
        wild = [a for a in m["arms"] if "_" in pat_variants(a["pat"]) and "guard" not in a]
        if not rep.check(bool(wild), "unknown-kind:has-default", "the match over the clang type kind has a catch-all arm", fct.loc(m)):
            continue
        body = wild[-1]["body"]
        errs = [n for n in fct.walk(body) if n["k"] == "Call" and (n.get("ctor_of") or "").endswith("::Err")]
        panics = [n for n in fct.walk(body) if n["k"] in ("Call", "MCall") and fct.ty(n) == "!" ]
        opq = [n for n in fct.walk(body) if "Opaque" in (n.get("def") or "")]
        rep.check((bool(errs) or bool(opq)) and not panics, "unknown-kind:error-value",
                  "an unsupported clang type kind yields Err(ParseError) / an opaque type (panicking calls: %d)" % len(panics), fct.loc(body))


def _contains(root, n):
    stack = [root]
    while stack:
        x = stack.pop()
        if x is n:
            return True
        stack.extend(c for _, c in kids(x))
    return False


def _same_test(body, g, ins, pol):
    """guard g (with polarity pol) says "insert returned false"."""
    e = strip(g)
    neg = not pol
    while e.get("k") == "Unary" and e["op"] == "!":
        e = strip(e["e"])
        neg = not neg
    if e.get("k") == "Local":
        init = body.local_init(e["id"])
        if init is not None:
            return _same_test(body, init, ins, not neg)
    return e is ins and neg


# ---------------------------------------------------------------------------------------------
# R12.7 libclang failure
# ---------------------------------------------------------------------------------------------
@RULES.rule("R12.7", "a translation unit libclang refuses to build is an error value, not a panic", floor=3)
def r12_7(rep):
    """Breaks (today's tree): `clang_parseTranslationUnit` returns NULL (unknown `-Xclang` flag, unknown target triple,
    no input at all) → `TranslationUnit::parse` = None → `.expect("libclang error; …")` in BindgenContext::new."""
    prog = rep.prog
    tp = rep.need(prog.fn("clang::TranslationUnit::parse"), "clang::TranslationUnit::parse")
    rep.need((tp.ty(tp.root) or "").startswith("std::option::Option<") or None, "TranslationUnit::parse returns an Option")
    ix = index(prog)
    sites = ix.callers_of(tp)
    rep.need(sites, "call sites of clang::TranslationUnit::parse")
    for b, c in sites:
        how, at = consumer(b, c)
        rep.check(how != "panic", "tu-parse-failure-unwrapped@" + short(b),
                  "None is handled (%s)" % (at.get("name") or at["k"]) if how != "panic" else
                  "`TranslationUnit::parse(..).%s(..)`: libclang's refusal (bad clang flag, unknown target, no input) panics instead of "
                  "returning a BindgenError" % at.get("name"), b.loc(c))


# ---------------------------------------------------------------------------------------------
# R12.8 user text as identifier
# ---------------------------------------------------------------------------------------------
@RULES.rule("R12.8", "user text is never turned into an identifier unchecked (Ident::new panics on non-identifiers)", floor=14)
def r12_8(rep):
    """Breaks (today's tree): `--dynamic-loading my-lib` → `ctx.rust_ident("my-lib")` → `Ident::new` panics with
    "`my-lib` is not a valid Ident"; `/// <div rustbindgen replaces="a b"></div>` names an item `a b`.
    (`rust_mangle` only rewrites keywords and `@ ? $`.)  Same taint engine and sources as R12.2; one instance per
    `Ident::new` call site, keyed by the function that contains it."""
    prog = rep.prog
    ta = Taint(prog)
    sites = []
    for b in prog.bodies.values():
        if b.path.startswith("options::cli::") or "::tests::" in b.path:
            continue
        for n in b.nodes:
            if n["k"] == "Call" and callee_of(n) in ("proc_macro2::Ident::new", "proc_macro2::Ident::new_raw") and n["args"]:
                sites.append((b, n))
    rep.need(sites, "calls of proc_macro2::Ident::new")
    for b, n in sites:
        labs = ta.close(b, ta.expr(b, n["args"][0]))
        if not labs:
            rep.ok("ident-of-fixed-text@" + short(b), "`%s` derives from no user-text source" % b.canon(n["args"][0], 3)[:100], b.loc(n))
            continue
        for lab in sorted(labs):
            rep.bad("ident-of-user-text:%s@%s" % (lab, short(b)),
                    "`Ident::new(..)` panics when the user-supplied text of `%s` is not a Rust identifier; it must be validated / reported "
                    "as an error value first" % lab, b.loc(n))


# ---------------------------------------------------------------------------------------------------------------------
# R12.9 — added by the main session after an independently seeded change (`Item::from_ty(elem, ..)?` -> `.expect(..)` in the
# vector arm of Type::from_clang_ty) was missed.
PARSE_RESULT_PANICS = {
    # (function, callee whose Result<_, ParseError> is unwrapped, match arm the site sits in): reason it cannot fail today
    ("CompInfo::from_ty", "Item::parse", "CXCursor_ClassDecl|CXCursor_ClassTemplate|CXCursor_EnumDecl|CXCursor_StructDecl|CXCursor_TypeAliasDecl|CXCursor_TypeAliasTemplateDecl|CXCursor_TypedefDecl|CXCursor_UnionDecl"):
        "inner declaration of a record: Item::parse of a type declaration cursor yields an item or an opaque fallback",
    ("FunctionSig::from_ty", "Item::parse", ""): "parameter declaration of a function prototype",
    ("ObjCInterface::from_ty", "FunctionSig::from_ty", "CXCursor_ObjCClassMethodDecl|CXCursor_ObjCInstanceMethodDecl"): "ObjC method declarations always have a signature",
    ("Type::from_clang_ty", "CompInfo::from_ty", "CXType_Invalid|CXType_Unexposed"): "guarded by a declaration kind check just before",
    ("Type::from_clang_ty", "Enum::from_ty", "CXType_Enum"): "the type kind was just checked to be an enum",
    ("Type::from_clang_ty", "CompInfo::from_ty", "CXType_Record"): "the type kind was just checked to be a record",
}


@RULES.rule("R12.9", "a construct bindgen cannot model is propagated as ParseError (opaque fallback), not unwrapped — frozen inventory", floor=6)
def r12_9(rep):
    """`Item::from_ty(..)?` is the entry to the opaque-fallback chain (resolve_typerefs / from_ty_or_ref_with_id turn the
    error into an opaque type).  Unwrapping such a result turns a header clang accepts (e.g. a vector of `_BitInt(32)`)
    into a panic.  The sites that unwrap today are frozen with the reason each cannot fail; a new one is a violation."""
    from hir import pat_variants as _pv
    prog = rep.prog
    seen = set()
    for p, b in prog.bodies.items():
        for c in b.calls(lambda n: n["k"] == "MCall" and n["name"] in ("unwrap", "expect", "unwrap_unchecked")):
            rt = prog.types[c["rt"]]
            if not (rt.startswith("std::result::Result") and "parse::ParseError" in rt):
                continue
            arm = ""
            for pol, kind, g in b.guards(c):
                if kind == "arm":
                    m, i = g
                    arm = "|".join(sorted(v.split("::")[-1] for v in _pv(m["arms"][i]["pat"])))
            r = strip(c["recv"])
            callee = (r.get("resolved") or r.get("callee") or r.get("name") or "?")
            fn = "::".join(p.split("::")[-2:])
            key = (fn, "::".join(callee.split("::")[-2:]), arm)
            inst = "parse-result-unwrapped:%s:%s%s" % (key[0], key[1], (":" + arm.split("|")[0]) if arm else "")
            if key in PARSE_RESULT_PANICS:
                seen.add(key)
                rep.ok(inst, PARSE_RESULT_PANICS[key], b.loc(c))
            else:
                rep.bad(inst, "`%s` on the `Result<_, ParseError>` of `%s`: a construct bindgen cannot model panics here instead of "
                        "falling back to an opaque type" % (c["name"], callee), b.loc(c))
    for key in PARSE_RESULT_PANICS:
        if key not in seen:
            rep.ok("inventory-entry-gone:%s:%s" % (key[0], key[1]), "site no longer unwraps (stricter than the inventory)")


@RULES.rule("R12.10", "version/option parsers cannot underflow or over-shift on any input (interval analysis)", floor=1)
def r12_10(rep):
    """`--rust-target 1.0.0-nightly` reached `minor -= 1` with minor == 0 (panic in debug builds); repaired by a fix: commit.
    The interval interpreter evaluates every unsigned subtraction and shift of the parsers under the conditions that
    dominate them; parsed numbers are unconstrained u64."""
    import intervals
    prog = rep.prog
    targets = [b for p, b in prog.bodies.items() if p.startswith("features::") or "features::RustTarget" in p or "features::RustEdition" in p]
    targets = [b for b in targets if b.kind in ("Fn", "AssocFn") and "::test" not in b.path]
    rep.need(targets, "functions of bindgen::features")
    n = 0
    for b in targets:
        it = intervals.Interp(b, 64)
        try:
            fs = it.run()
        except RecursionError:
            continue
        n += it.checked
        for f in fs:
            key = re.sub(r"#\d+", "", f.key)
            rep.bad(key, f.detail, b.loc(f.node))
        if not fs and it.checked:
            rep.ok("arith-ok:%s" % b.path.split("::")[-1])
    rep.check(True, "functions-analysed:%d" % len(targets), "%d arithmetic sites checked" % n)


@RULES.rule("R12.11", "an edition the target does not support is rejected: edition table and validation (shared with C14 R14.1/R14.4)", floor=20)
def r12_11(rep):
    """C12 promises `UnsupportedEdition` for an unsupported edition/target pair.  The check is `!edition.is_available(target)` in
    Builder::generate; it is only as good as the edition table (`Edition2024 => 85`): lowering the row to 82 makes
    `--rust-target 1.84 --rust-edition 2024` generate bindings instead of returning the error."""
    import c14
    c14.r14_1(rep)
    c14.r14_4(rep)


def _abi_value_filtered(prog, b, node, depth=0):
    """is the ClangAbi-typed local `node` known not to be `ClangAbi::Unknown` where it is used: it is bound by an arm that follows an
    arm for `Unknown`, or by a `let` whose initialiser is such a match, or it is a parameter every caller fills with such a value"""
    from hir import pat_variants as _pv
    UNK = "ir::function::ClangAbi::Unknown"

    def names_unknown(pat):
        if UNK in _pv(pat):
            return True
        return any(names_unknown(q) for q in pat.get("ps", [])) or ("p" in pat and isinstance(pat["p"], dict) and names_unknown(pat["p"])) or \
            any(names_unknown(f["p"]) for f in pat.get("fs", []))

    def match_filters(m, upto=None):
        arms = m["arms"] if upto is None else m["arms"][:upto]
        return any(names_unknown(a["pat"]) and a.get("guard") is None for a in arms)
    d = b.local_def.get(node["id"])
    if not d:
        return False
    kind = d[0][0]
    if kind == "arm":
        m = d[0][1]
        idx = next((i for i, a in enumerate(m["arms"]) if any(x.get("id") == node["id"] for x in _pat_binds(a["pat"]))), None)
        return idx is not None and match_filters(m, idx)
    if kind in ("let", "letcond"):
        init = strip(d[0][1].get("init") or {})
        if init.get("k") == "Match":
            return any(names_unknown(a["pat"]) and a.get("guard") is None and any(x["k"] == "Ret" for x in b.walk(a["body"])) for a in init["arms"])
        return False
    if kind == "param" and depth < 2:
        idx = next((i for i, p_ in enumerate(b.params) if p_.get("id") == node["id"]), None)
        callers = []
        for p2, b2 in prog.bodies.items():
            for c in b2.calls(lambda x: (x.get("callee") or x.get("resolved") or "") == b.path):
                callers.append((b2, c))
        if idx is None or not callers:
            return False
        for b2, c in callers:
            args = c["args"] if c["k"] == "Call" else [c["recv"]] + c["args"]
            a = strip(args[idx]) if idx < len(args) else {}
            if a.get("k") != "Local" or not _abi_value_filtered(prog, b2, a, depth + 1):
                return False
        return True
    return False


def _pat_binds(pat):
    out = []
    if pat.get("k") == "Bind":
        out.append(pat)
    for q in pat.get("ps", []):
        out += _pat_binds(q)
    if isinstance(pat.get("p"), dict):
        out += _pat_binds(pat["p"])
    for f in pat.get("fs", []):
        out += _pat_binds(f["p"])
    return out


def _abi_interpolations(prog):
    import qq
    out = []
    for p, b in sorted(prog.bodies.items()):
        for q in qq.quote_sites(b):
            for nm, node in q.interps().items():
                if (b.ty(node) or "").endswith("ir::function::ClangAbi"):
                    out.append((p, b, q, nm, _abi_value_filtered(prog, b, node)))
    return out


@RULES.rule("R12.12", "a calling convention Rust cannot name is reported or skipped, never a panic", floor=2)
def r12_12(rep):
    """clang accepts `__attribute__((regcall))`, `preserve_most`, … ; bindgen records them as `ClangAbi::Unknown(n)`.  Every place
    that handles that variant must produce an error value / skip the item: `Function::codegen` used to `panic!` (repaired by a
    fix: commit); `ToTokens for ClangAbi` still panics when such a convention appears on a function-POINTER type."""
    from hir import pat_variants as _pv
    prog = rep.prog
    UNK = "ir::function::ClangAbi::Unknown"
    n = 0
    for p, b in prog.bodies.items():
        for m in b.walk():
            if m["k"] != "Match":
                continue
            for a in m["arms"]:
                def has_unknown(pat):
                    if UNK in _pv(pat):
                        return True
                    return any(has_unknown(q) for q in pat.get("ps", [])) or ("p" in pat and isinstance(pat["p"], dict) and has_unknown(pat["p"])) or \
                        any(has_unknown(f["p"]) for f in pat.get("fs", []))
                if not has_unknown(a["pat"]):
                    continue
                n += 1
                body = a["body"]
                panics = [x for x in b.walk(body) if x["k"] == "Call" and ((x.get("callee") or "").startswith("std::rt::panic") or
                                                                            (x.get("callee") or "").startswith("core::panicking") or
                                                                            (x.get("callee") or "").startswith("std::rt::begin_panic"))]
                fn = "::".join(p.split("::")[-2:]) if not p.startswith("<") else re.sub(r"<(.*?) as (.*?)>::(\w+)", lambda mm: "%s for %s::%s" % (mm.group(2).split("::")[-1], mm.group(1).split("::")[-1], mm.group(3)), p)
                if panics and (b.fact.get("impl_trait") or "").endswith("ToTokens"):
                    # the printer may refuse `Unknown` if no such value ever reaches it: every quote that interpolates a ClangAbi
                    # takes it from behind an arm that took `Unknown` away
                    sites = _abi_interpolations(prog)
                    unf = [(pp, q) for pp, bb, q, nm, ok in sites if not ok]
                    rep.check(bool(sites) and not unf, "unknown-abi-panics@%s" % fn,
                              "the printer refuses `Unknown`, and each of the %d quotes that print a ClangAbi sits behind a filter for it" % len(sites)
                              if sites and not unf else
                              "the `ClangAbi::Unknown` arm of %s panics and `%s` interpolates a ClangAbi that may still be `Unknown` "
                              "(e.g. a `regcall` function-pointer type)" % (fn, unf[0][0].split("::")[-1] if unf else "?"),
                              unf[0][1].loc() if unf else b.loc(body))
                    continue
                rep.check(not panics, "unknown-abi-panics@%s" % fn, "the `ClangAbi::Unknown` arm of %s %s" % (fn, "panics" if panics else "does not panic"), b.loc(body))
    rep.check(n >= 2, "unknown-abi-arms", "%d arms handling ClangAbi::Unknown" % n)


# ---------------------------------------------------------------------------------------------------------
# R12.13  the signature of a function declared through a typedef is an alias: canonicalise before destructuring
# ---------------------------------------------------------------------------------------------------------
def _aborts(b, n):
    for x in b.walk(n):
        if x["k"] in ("Call", "MCall"):
            c = str(x.get("callee") or x.get("resolved") or "")
            if "core::panicking::" in c or "std::rt::panic" in c or "std::rt::begin_panic" in c or "panic_fmt" in c or "unreachable" in c:
                return True
    return False


@RULES.rule("R12.13", "TypeKind::Function is taken out of a function's signature type only after looking through aliases", floor=4)
def r12_13(rep):
    """`typedef int fn_t(int); static fn_t f;` / `struct S { fn_t m; };` / `struct S { virtual fn_t m; };` are valid C / C++; the
    signature item of such a function is `TypeKind::Alias(fn_t)`, not `TypeKind::Function`.  A `let TypeKind::Function(..) =
    <sig>.kind() else { panic!() }` therefore has to read the kind of `<sig>.canonical_type(ctx)` (as `Function::codegen` does);
    without it bindgen aborts on those headers instead of emitting bindings."""
    from hir import pat_variants as _pv
    prog = rep.prog
    FNK = "ir::ty::TypeKind::Function"
    n = 0
    for p, b in sorted(prog.bodies.items()):
        for st in b.nodes:
            if st["k"] == "Let" and "els" in st:
                pats, scr, fb = _pv(st["pat"]), st.get("init"), st["els"]
            elif st["k"] == "Match":
                accept = [v for a in st["arms"] for v in _pv(a["pat"]) if v != "_"]
                wild = [a for a in st["arms"] if "_" in _pv(a["pat"]) or not _pv(a["pat"])]
                if not wild:
                    continue
                pats, scr, fb = accept, st["scrut"], wild[-1]["body"]
            else:
                continue
            if scr is None or [v for v in pats if v != "_"] != [FNK] or not _aborts(b, fb):
                continue
            src = b.canon(scr, 8)
            if "Function::signature" not in src:
                # follow one level of `let signature_item = ctx.resolve_item(function.signature())`
                ids = [x for x in b.walk(scr) if x["k"] == "Local"]
                src2 = " ".join(b.canon(b.local_init(x["id"]), 8) for x in ids if b.local_init(x["id"]) is not None)
                if "Function::signature" not in src2:
                    continue
                src = src + " <- " + src2
            n += 1
            ok = "canonical_type" in src or "through_type_aliases" in src
            rep.check(ok, "fn-signature-kind@" + short(b), "`%s`%s" % (src[:160], "" if ok else
                      ": the kind of an alias is TypeKind::Alias, the fallback aborts (function declared through a typedef)"), b.loc(st))
    rep.need(n >= 4, "destructurings of a function signature's TypeKind::Function with an aborting fallback")


# ---------------------------------------------------------------------------------------------------------
# R12.14  integer division: no divisor can be zero
# ---------------------------------------------------------------------------------------------------------
def _nonzero_proof(b, n, div):
    """why the divisor of n cannot be 0, or None"""
    d = strip(div)
    for _ in range(4):
        if d.get("k") == "Local" and b.local_init(d["id"]) is not None:
            d = strip(b.local_init(d["id"]))
        else:
            break
    # (a) max(x, k) with a literal k >= 1
    if d.get("k") in ("Call", "MCall"):
        c = str(d.get("resolved") or d.get("callee") or "")
        if c.endswith("::max") or d.get("name") == "max":
            ops = ([d["recv"]] if d.get("k") == "MCall" else []) + list(d["args"])
            if any(strip(o).get("k") == "Lit" and isinstance(strip(o).get("v"), int) and strip(o)["v"] >= 1 for o in ops):
                return "max(.., k>=1)"
    if d.get("k") == "Lit" and isinstance(d.get("v"), int) and d["v"] != 0:
        return "literal"
    key = b.canon(strip(div), 6)
    # (b) a guard on the path says the divisor is not zero: `if d == 0 { return }` before, `d != 0 &&` around
    for pol, kind, g in b.guards(n, nested=True):
        if kind != "cond":
            continue
        todo = [(pol, strip(g))]
        while todo:
            pl, e = todo.pop()
            if e.get("k") == "Unary" and e.get("op") == "!":
                todo.append((not pl, strip(e["e"])))
            elif e.get("k") == "Binary" and e["op"] == ("&&" if pl else "||"):
                todo += [(pl, strip(e["l"])), (pl, strip(e["r"]))]
            elif e.get("k") == "Binary" and e["op"] in ("==", "!=", ">", ">=", "<"):
                l, r = strip(e["l"]), strip(e["r"])
                for x, y in ((l, r), (r, l)):
                    if b.canon(x, 6) == key and y.get("k") == "Lit" and isinstance(y.get("v"), int):
                        op, v = e["op"], y["v"]
                        if x is r:
                            op = {">": "<", "<": ">", ">=": "<="}.get(op, op)
                        holds = pl
                        if (op == "!=" and v == 0 and holds) or (op == "==" and v == 0 and not holds) or \
                           (op == ">" and v >= 0 and holds) or (op == ">=" and v >= 1 and holds) or (op == "<" and v <= 1 and not holds):
                            return "guarded by `%s`" % b.canon(e, 3)[:50]
    # (c) a local that starts at a positive literal and is only ever multiplied / shifted left / increased
    d = strip(div)
    if d.get("k") == "Local":
        df = b.local_def.get(d["id"])
        if df and df[0][0] == "let" and df[0][1].get("init") is not None:
            init = strip(df[0][1]["init"])
            if init.get("k") == "Lit" and isinstance(init.get("v"), int) and init["v"] >= 1:
                asg = [a for a in b.nodes if a["k"] in ("Assign", "AssignOp") and strip(a["l"]).get("k") == "Local" and strip(a["l"])["id"] == d["id"]]
                if all(a["k"] == "AssignOp" and a["op"] in ("*", "*=", "<<", "<<=", "+", "+=") and strip(a["r"]).get("k") == "Lit" and strip(a["r"]).get("v", 0) >= 1
                       for a in asg):
                    return "starts at %d and only grows" % init["v"]
    return None


@RULES.rule("R12.14", "no integer division or remainder has a divisor that can be zero", floor=6)
def r12_14(rep):
    """Alignments and sizes come from libclang and can be 0 (incomplete / dependent types: `template<class T> struct S { int pre;
    typename T::Assoc a; int b; }`).  `align_to(size, 0)` written as `(size + align - 1) / align * align` panics with "attempt to
    divide by zero" where the guarded form returns `size`.  Every `/` and `%` whose divisor is not a non-zero literal needs a
    reason."""
    prog = rep.prog
    n = 0
    seen = {}
    for p, b in sorted(prog.bodies.items()):
        if b.file.startswith("bindgen/") is False:
            continue
        for x in b.nodes:
            if x["k"] not in ("Binary", "AssignOp") or x.get("op") not in ("/", "%", "/=", "%=") or b.macro_name(x):
                continue
            t = (b.ty(x["l"]) or "").replace("&", "")
            if t in ("f32", "f64"):
                continue
            d = strip(x["r"])
            if d.get("k") == "Lit" and isinstance(d.get("v"), int) and d["v"] != 0:
                continue
            n += 1
            why = _nonzero_proof(b, x, x["r"])
            k = "divisor-nonzero:%s@%s" % (b.canon(x["r"], 2)[:40], short(b))
            seen[k] = seen.get(k, 0) + 1
            if seen[k] > 1:
                k += "#%d" % seen[k]
            rep.check(why is not None, k, why or "`%s %s %s`: nothing on the path excludes a zero divisor" %
                      (b.canon(x["l"], 2)[:30], x["op"], b.canon(x["r"], 2)[:30]), b.loc(x))
    rep.need(n >= 6, "divisions by computed values (align_to, blob, already_packed, for_size_internal, align_to_latest_field)")


# ---------------------------------------------------------------------------------------------------------
# R12.15  ids that may never have become items are only resolved fallibly
# ---------------------------------------------------------------------------------------------------------
@RULES.rule("R12.15", "replacement ids recorded by `replaces=` annotations are resolved fallibly before anything else touches them", floor=2)
def r12_15(rep):
    """`/** <div rustbindgen replaces="Foo"></div> */ extern int x;` records a freshly reserved id for `Foo` that never becomes an
    item (the declaration is not a type definition).  `BindgenContext::process_replacements` must test such an id with
    `resolve_item_fallible` before handing it to anything that goes through `resolve_item` (`as_type_id`, `expect_type_id`, …),
    which panics with "Not an item" on an unfilled slot."""
    prog = rep.prog
    b = rep.need(prog.fn("ir::context::BindgenContext::process_replacements"), "BindgenContext::process_replacements")
    PANICKY = "ir::context::BindgenContext::resolve_item"
    # locals holding a value of the `replacements` map
    vals = set()
    for n in b.nodes:
        if n["k"] in ("Let", "LetCond") and n.get("init") is not None:
            src = b.canon(n["init"], 6)
            if "BindgenContext::replacements" in src and ("::get(" in src or "get(" in src):
                def binds(p):
                    if p.get("k") == "Bind":
                        vals.add(p["id"])
                    for q in p.get("ps", []):
                        binds(q)
                    if isinstance(p.get("p"), dict):
                        binds(p["p"])
                binds(n["pat"])
    # `if let Some(r) = replacement` rebinding
    changed = True
    while changed:
        changed = False
        for n in b.nodes:
            if n["k"] in ("Let", "LetCond") and n.get("init") is not None and strip(n["init"]).get("k") == "Local" and strip(n["init"])["id"] in vals:
                def binds2(p):
                    nonlocal changed
                    if p.get("k") == "Bind" and p["id"] not in vals:
                        vals.add(p["id"])
                        changed = True
                    for q in p.get("ps", []):
                        binds2(q)
                    if isinstance(p.get("p"), dict):
                        binds2(p["p"])
                binds2(n["pat"])
    rep.need(vals, "the value looked up in `self.replacements` in process_replacements")
    reach_cache = {}

    def panics(callee):
        if callee not in reach_cache:
            reach_cache[callee] = callee == PANICKY or PANICKY in prog.reachable([callee], stop=lambda x: x.endswith("resolve_item_fallible"))
        return reach_cache[callee]

    n_uses = 0
    for c in b.nodes:
        if c["k"] not in ("MCall", "Call"):
            continue
        operands = ([c["recv"]] if c["k"] == "MCall" else []) + list(c.get("args", []))
        if not any(strip(o).get("k") == "Local" and strip(o)["id"] in vals for o in operands):
            continue
        cal = str(c.get("resolved") or c.get("callee") or "")
        if cal.endswith("resolve_item_fallible") or not cal or cal.startswith("std::") or cal.startswith("<std::") or "PartialEq" in cal:
            continue
        if not panics(cal):
            continue
        n_uses += 1
        guarded = False
        for pol, kind, g in b.guards(c):
            if kind in ("cond",) and pol:
                src = b.canon(g, 5)
                if "resolve_item_fallible(" in src and ("is_some" in src or strip(g).get("k") == "LetCond"):
                    guarded = True
        rep.check(guarded, "dangling-id:%s@process_replacements" % cal.split("::")[-1],
                  "`%s` on the recorded replacement id runs only after `resolve_item_fallible(id).is_some()`" % cal.split("::")[-1] if guarded else
                  "`%s` reaches BindgenContext::resolve_item with an id that may never have become an item (`replaces=` on a non-type "
                  "declaration): panics with 'Not an item'" % cal.split("::")[-1], b.loc(c))
    rep.need(n_uses >= 1, "a use of the recorded replacement id that reaches resolve_item")
    rep.ok("dangling-id:fallible-test-present", "process_replacements consults resolve_item_fallible")


# ---------------------------------------------------------------------------------------------------------
# R12.16  layout arithmetic: unsigned subtraction cannot wrap
# ---------------------------------------------------------------------------------------------------------
def _ge_proof(b, n):
    """why `l - r` of node n cannot underflow, or None"""
    l, r = strip(n["l"]), strip(n["r"])
    kl, kr = b.canon(l, 8), b.canon(r, 8)
    # P2  align_to(r, _) - r   /   max(r, _) - r
    if l.get("k") in ("Call", "MCall"):
        c = str(l.get("resolved") or l.get("callee") or "")
        ops = ([l["recv"]] if l.get("k") == "MCall" else []) + list(l.get("args", []))
        if (c.endswith("align_to") and ops and b.canon(ops[0], 8) == kr) or (c.endswith("::max") and any(b.canon(o, 8) == kr for o in ops)):
            return "%s(r, ..) >= r" % c.split("::")[-1]
    # P6  (x + y) - (x % y): the remainder is smaller than y
    if r.get("k") == "Local" and b.local_init(r["id"]) is not None:
        ri = strip(b.local_init(r["id"]))
    else:
        ri = r
    if ri.get("k") == "Binary" and ri["op"] == "%" and l.get("k") == "Binary" and l["op"] == "+":
        y = b.canon(ri["r"], 8)
        if y in (b.canon(l["l"], 8), b.canon(l["r"], 8)):
            return "(x + y) - (x % y), remainder < y"
    # P1  a comparison on the path
    for pol, kind, g in b.guards(n, nested=True):
        if kind != "cond":
            continue
        todo = [(pol, strip(g))]
        while todo:
            pl, e = todo.pop()
            if e.get("k") == "Unary" and e.get("op") == "!":
                todo.append((not pl, strip(e["e"])))
            elif e.get("k") == "Binary" and e["op"] == ("&&" if pl else "||"):
                todo += [(pl, strip(e["l"])), (pl, strip(e["r"]))]
            elif e.get("k") == "Binary" and e["op"] in ("<", "<=", ">", ">="):
                a, c_ = b.canon(e["l"], 8), b.canon(e["r"], 8)
                op = e["op"]
                if not pl:
                    op = {"<": ">=", "<=": ">", ">": "<=", ">=": "<"}[op]
                if (a, c_) == (kl, kr) and op in (">", ">="):
                    return "guarded: l %s r" % op
                if (a, c_) == (kr, kl) and op in ("<", "<="):
                    return "guarded: r %s l" % op
    # P5  `l += r` immediately before, in the same block, nothing in between writes l or r
    # (logging macros wrap their arguments in blocks of their own: look outwards block by block; conditions in between only make
    # the subtraction run less often)
    par = b.parent[n["_i"]]
    while par is not None:
        if par["k"] in ("Closure", "Loop", "While", "For"):
            break
        if par["k"] == "Block":
            blk = par
            stmts = blk["stmts"] + ([blk["tail"]] if isinstance(blk.get("tail"), dict) else [])
            idx = next((i for i, st in enumerate(stmts) if any(x is n for x in b.walk(st))), None)
            stop = False
            if idx is not None:
                def establishes(st_):
                    e_ = strip(st_.get("e", st_) if st_.get("k") in ("Semi", "ExprStmt") else st_)
                    if e_.get("k") == "AssignOp" and e_.get("op") in ("+", "+=") and b.canon(e_["l"], 8) == kl and b.canon(e_["r"], 8) == kr:
                        return True
                    if e_.get("k") == "Assign" and b.canon(e_["l"], 8) == kl:
                        v = strip(e_["r"])
                        if v.get("k") in ("Call", "MCall") and str(v.get("resolved") or v.get("callee") or "").endswith("::max"):
                            ops_ = ([v["recv"]] if v.get("k") == "MCall" else []) + list(v.get("args", []))
                            return any(b.canon(o, 8) == kr for o in ops_)
                    if e_.get("k") == "If" and "else" in e_:
                        def last(blk_):
                            blk_ = strip(blk_)
                            if blk_.get("k") != "Block":
                                return blk_
                            if isinstance(blk_.get("tail"), dict):
                                return blk_["tail"]
                            return blk_["stmts"][-1] if blk_["stmts"] else {}
                        return establishes(last(e_["then"])) and establishes(last(e_["else"]))
                    return False
                for st in reversed(stmts[:idx]):
                    e = st.get("e", st) if st.get("k") in ("Semi", "ExprStmt") else st
                    if establishes(st):
                        return "`l += r` (or `l = max(l, r)`) just before"
                    if any(x["k"] in ("Assign", "AssignOp") and b.canon(x["l"], 8) in (kl, kr) for x in b.walk(st)):
                        stop = True
                        break
            if stop:
                break
        par = b.parent[par["_i"]]
    return None


@RULES.rule("R12.16", "struct layout bookkeeping: no unsigned subtraction can wrap", floor=9)
def r12_16(rep):
    """`StructLayoutTracker` subtracts offsets and sizes that come from libclang and from its own running offset.  A derived class may
    reuse its base's tail padding (`struct A { A(); int x; char y; }; struct B : A { char z; };`): the tracker's offset is then
    PAST the size clang reports, and `comp_layout.size - self.latest_offset` in `add_tail_padding` (guarded only by `==`) panics with
    "attempt to subtract with overflow" under `--explicit-padding`."""
    prog = rep.prog
    n = 0
    seen = {}
    for p, b in sorted(prog.bodies.items()):
        if b.file != "bindgen/codegen/struct_layout.rs":
            continue
        for x in b.nodes:
            if x["k"] not in ("Binary", "AssignOp") or x.get("op") not in ("-", "-=") or b.macro_name(x):
                continue
            if (b.ty(x["l"]) or "").replace("&", "") not in ("usize", "u64", "u32"):
                continue
            n += 1
            why = _ge_proof(b, x)
            k = "no-underflow:%s@%s" % (re.sub(r"param:self\.[\w:<>']+::", "self.", b.canon(x["r"], 2))[:40], short(b))
            seen[k] = seen.get(k, 0) + 1
            if seen[k] > 1:
                k += "#%d" % seen[k]
            rep.check(why is not None, k, why or "`%s - %s`: nothing on the path says the left side is at least the right side" %
                      (b.canon(x["l"], 2)[:40], b.canon(x["r"], 2)[:40]), b.loc(x))
    rep.need(n >= 9, "unsigned subtractions in codegen/struct_layout.rs")


# ---------------------------------------------------------------------------------------------------------
# R12.17 / R12.18  values that the header controls are not asserted on
# ---------------------------------------------------------------------------------------------------------
@RULES.rule("R12.17", "a kind reported by libclang is never matched with a panicking catch-all", floor=2)
def r12_17(rep):
    """clang accepts more than bindgen models (`_Complex int ci;` is a GNU extension whose element kind is `Int`).  A
    `match <clang kind> { known.. , _ => panic!() }` aborts on such input; the catch-all has to produce a value (opaque blob) or an
    error.  A catch-all that is unreachable because an enclosing arm on the same kind already restricts it is accepted."""
    from hir import pat_variants as _pv
    prog = rep.prog
    n = 0
    for p, b in sorted(prog.bodies.items()):
        if not b.file.startswith("bindgen/"):
            continue
        for m in b.nodes:
            if m["k"] != "Match" or (b.ty(m["scrut"]) or "").replace("&", "") not in ("i32", "u32"):
                continue
            src = b.canon(m["scrut"], 4)
            if "clang::Type::kind(" not in src and "clang::Cursor::kind(" not in src:
                continue
            wild = [a for a in m["arms"] if "_" in _pv(a["pat"]) or not _pv(a["pat"])]
            if not wild or not _aborts(b, wild[-1]["body"]):
                continue
            n += 1
            inner = {v for a in m["arms"] for v in _pv(a["pat"]) if v != "_"}
            covered = False
            for pol, kind, g in b.guards(m):
                if kind == "arm" and pol:
                    mm, i = g
                    if b.canon(mm["scrut"], 4) == src:
                        outer = {v for v in _pv(mm["arms"][i]["pat"]) if v != "_"}
                        if outer and outer <= inner:
                            covered = True
            rep.check(covered, "clang-kind-catch-all@" + short(b),
                      "the catch-all is unreachable: an enclosing arm on the same kind admits only the listed kinds" if covered else
                      "`match %s { .., _ => panic }`: a kind clang reports and bindgen does not list aborts the run" % src[:60], b.loc(m))
    # fail closed on the two places this was written for
    bb = rep.need(prog.fn("ir::context::BindgenContext::build_builtin_ty"), "BindgenContext::build_builtin_ty")
    cx = [m for m in bb.nodes if m["k"] == "Match" and "clang::Type::kind(" in bb.canon(m["scrut"], 4) and
          any("Complex" in bb.canon(a["body"], 3) for a in m["arms"])]
    rep.check(bool(cx), "complex-element-kind-match", "build_builtin_ty decides the element kind of a complex type by a match on clang's kind", bb.loc(bb.root))
    for m in cx:
        wild = [a for a in m["arms"] if "_" in _pv(a["pat"])]
        if wild and any("Complex" in bb.canon(a["body"], 3) for a in m["arms"] if a is not wild[-1]) and \
                not any(x["k"] == "Match" for x in bb.walk(wild[-1]["body"])):
            rep.check(not _aborts(bb, wild[-1]["body"]), "complex-element-kind-catch-all", "a non-floating complex element kind yields a value", bb.loc(wild[-1]["body"]))


@RULES.rule("R12.18", "the value of an evaluated macro is never unwrapped or asserted on", floor=2)
def r12_18(rep):
    """`#define X '\\777'`, `'\\x123'`, `'\\u00e9'`, `U'\\U0001F600'` are character constants clang accepts; cexpr reports them as
    `CChar::Raw(n)` with n > 255 or as a multi-byte `char`.  `u8::try_from(c).unwrap()` / `assert_eq!(c.len_utf8(), 1)` in
    `Var::parse` abort on them; such a macro has to be skipped (`ParseError::Continue`) like any other value bindgen cannot model."""
    from hir import pat_variants as _pv
    prog = rep.prog
    b = rep.need(prog.impl_fn("parse::ClangSubItemParser", "ir::var::Var", "parse"), "<Var as ClangSubItemParser>::parse")
    ms = [m for m in b.nodes if m["k"] == "Match" and any(v.startswith("cexpr::expr::EvalResult::") for a in m["arms"] for v in _pv(a["pat"]))]
    rep.need(ms, "the match over cexpr::expr::EvalResult in Var::parse")
    n = 0
    for m in ms:
        for i, a in enumerate(m["arms"]):
            vs = [v for v in _pv(a["pat"]) if v.startswith("cexpr::expr::EvalResult::")]
            if not vs:
                continue
            ids = set()

            def binds(p_):
                if p_.get("k") == "Bind":
                    ids.add(p_["id"])
                for q in p_.get("ps", []):
                    binds(q)
                for f_ in p_.get("fs", []):
                    binds(f_["p"])
                for kk in ("p", "sub"):
                    if isinstance(p_.get(kk), dict):
                        binds(p_[kk])
            binds(a["pat"])
            # values derived inside the arm (inner matches / lets on the bound value)
            changed = True
            while changed:
                changed = False
                for x in b.walk(a["body"]):
                    if x["k"] in ("Let", "LetCond") and x.get("init") is not None and any(y["k"] == "Local" and y["id"] in ids for y in b.walk(x["init"])):
                        before = len(ids)
                        binds(x["pat"])
                        changed = changed or len(ids) != before
                    if x["k"] == "Match" and any(y["k"] == "Local" and y["id"] in ids for y in b.walk(x["scrut"])):
                        before = len(ids)
                        for aa in x["arms"]:
                            binds(aa["pat"])
                        changed = changed or len(ids) != before
            n += 1
            bad = []
            for x in b.walk(a["body"]):
                if x["k"] == "MCall" and x.get("name") in ("unwrap", "expect") and any(y["k"] == "Local" and y["id"] in ids for y in b.walk(x["recv"])):
                    bad.append((x, ".%s()" % x["name"]))
                if x["k"] == "If" and (b.macro_name(x) or "") in ("assert", "assert_eq", "assert_ne") and \
                        any(y["k"] == "Local" and y["id"] in ids for y in b.walk(x["cond"])):
                    bad.append((x, b.macro_name(x) + "!"))
                if x["k"] == "Match" and (b.macro_name(x) or "") in ("assert_eq", "assert_ne") and \
                        any(y["k"] == "Local" and y["id"] in ids for y in b.walk(x["scrut"])):
                    bad.append((x, b.macro_name(x) + "!"))
            key = "macro-value:%s" % "|".join(v.split("::")[-1] for v in vs)
            rep.check(not bad, key, "no unwrap / assert on the evaluated value" if not bad else
                      "%s on the evaluated macro value: a constant bindgen does not model aborts the run" % ", ".join(sorted({w for _, w in bad})),
                      b.loc(bad[0][0]) if bad else b.loc(a["body"]))
    rep.need(n >= 2, "EvalResult arms in Var::parse")


@RULES.rule("R12.19", "a `replaces=` replacement that is defined through the type it replaces is not applied", floor=1)
def r12_19(rep):
    """Replacing turns the replaced item into a reference to the replacement.  If the replacement is itself an alias of the replaced
    type (`typedef int Orig; /** replaces="Orig" */ typedef Orig Replacement;`) the type then refers to itself, and the recursive
    helpers that hop through aliases (`is_constified_enum_module`, `safe_canonical_type`, `layout`, …) never return: stack overflow
    (exit 139) as soon as the type is used.  `process_replacements` is the only place that can create such a cycle, so it has to
    test for it before recording the pair."""
    prog = rep.prog
    b = rep.need(prog.fn("ir::context::BindgenContext::process_replacements"), "BindgenContext::process_replacements")
    pushes = [c for c in b.calls(lambda n: n["k"] == "MCall" and n["name"] == "push") if "Vec<(ir::context::TypeId, ir::context::TypeId)>" in (b.ty(c["recv"]) or "")]
    rep.need(pushes, "the `replacements.push((id, replacement))` site")
    # the loop variable that names the replaced item
    for c in pushes:
        ids = {x["id"] for x in b.walk(c["args"][0]) if x["k"] == "Local"}
        ok = False
        for pol, kind, g in b.guards(c):
            if kind != "cond":
                continue
            todo = [(pol, strip(g))]
            while todo:
                pl, e = todo.pop()
                if e.get("k") == "Unary" and e.get("op") == "!":
                    todo.append((not pl, strip(e["e"])))
                elif e.get("k") == "Binary" and e["op"] in ("&&", "||"):
                    todo += [(pl, strip(e["l"])), (pl, strip(e["r"]))]
                elif e.get("k") in ("Call", "MCall"):
                    cal = str(e.get("resolved") or e.get("callee") or "")
                    operands = ([e["recv"]] if e["k"] == "MCall" else []) + list(e.get("args", []))
                    used = {x["id"] for o in operands for x in b.walk(o) if x["k"] == "Local"}
                    fn = prog.fn(cal)
                    if len(used & ids) >= 2 and fn is not None and not pl:
                        # a negated test relating the two ids, implemented with a loop that follows aliases / type refs
                        follows = any(n["k"] in ("Loop", "While") for n in fn.nodes) and \
                            any("TypeKind::Alias" in str(v) for n in fn.nodes if n["k"] == "Match" for a in n["arms"] for v in pat_variants(a["pat"]))
                        ok = ok or follows
        rep.check(ok, "replacement-cycle-test", "a replacement whose alias chain leads back to the replaced item is skipped" if ok else
                  "nothing checks that the replacement is not defined in terms of the replaced type: the type would refer to itself and every "
                  "alias-following recursion overflows the stack", b.loc(c))


# ---------------------------------------------------------------------------------------------
# R12.20
# ---------------------------------------------------------------------------------------------
def _option_shape(b, e):
    """'some' / 'none' / None for the value of a branch."""
    e = strip(e)
    while e.get("k") == "Block" and not e.get("stmts") and e.get("tail") is not None:
        e = strip(e["tail"])
    if e.get("k") == "Call" and (e.get("callee") or "").endswith("Some"):
        return "some"
    if e.get("k") == "Path" and (e.get("def") or "").endswith("::None"):
        return "none"
    s = b.canon(e, 2)
    if s.startswith("std::prelude::v1::Some(") or s.startswith("std::option::Option::Some("):
        return "some"
    if s in ("std::prelude::v1::None", "std::option::Option::None"):
        return "none"
    return None


@RULES.rule("R12.20", "an Option local that is `Some` only under a condition is unwrapped only where that condition holds", floor=2)
def r12_20(rep):
    """`let parent_canonical_name = if is_toplevel { None } else { Some(..) };` is later unwrapped in branches that test
    `is_toplevel` again.  Narrowing the definition (`if is_toplevel || enum_ty.name().is_some() { None }`) without revisiting every
    unwrap makes a named enum nested in a struct with a `constant` variant panic (seeded change).  For every local defined by an
    if/else with one `None` and one `Some(..)` branch, each `unwrap()` / `expect()` of it (through as_ref / as_deref / as_mut /
    clone) must sit under guards that imply the `Some` condition (truth table over the atoms of both conditions)."""
    import itertools
    import c08
    prog = rep.prog
    n = 0
    per = defaultdict(int)
    for p, b in sorted(prog.bodies.items()):
        cands = {}
        for st in b.nodes:
            if st["k"] != "Let" or "init" not in st:
                continue
            init = strip(st["init"])
            if init.get("k") != "If" or "else" not in init:
                continue
            pat = st.get("pat") or {}
            if pat.get("k") != "Bind" or "sub" in pat:
                continue
            t, e = _option_shape(b, init["then"]), _option_shape(b, init["else"])
            if {t, e} != {"some", "none"}:
                continue
            f = c08._formula(b, init["cond"])
            cands[pat["id"]] = (pat["name"], f if t == "some" else ("not", f), st)
        if not cands:
            continue
        for c in b.calls(lambda x: x["k"] == "MCall" and x["name"] in ("unwrap", "expect", "unwrap_unchecked")):
            r = strip(c["recv"])
            while r.get("k") == "MCall" and r["name"] in ("as_ref", "as_deref", "as_mut", "clone", "as_deref_mut", "cloned", "copied"):
                r = strip(r["recv"])
            if r.get("k") != "Local" or r["id"] not in cands or r["id"] in b.local_assigned:
                continue
            name, some_cond, st = cands[r["id"]]
            n += 1
            reach = c08._reach(b, c)
            atoms = sorted(c08._atoms(reach, set()) | c08._atoms(some_cond, set()))
            who = re.sub(r"<.*", "", (b.fact.get("impl_self") or "").split("::")[-1])
            key0 = "unwrap-local:%s@%s" % (name, (who + "::" if who else "") + p.split("::")[-1])
            per[key0] += 1
            key = key0 if per[key0] == 1 else "%s#%d" % (key0, per[key0] - 1)
            if len(atoms) > 18:
                rep.bad(key, "conditions too large to decide (%d atoms)" % len(atoms), b.loc(c))
                continue
            wit = None
            for vals in itertools.product((False, True), repeat=len(atoms)):
                env = dict(zip(atoms, vals))
                if c08._ev(reach, env) and not c08._ev(some_cond, env):
                    wit = env
                    break
            rep.check(wit is None, key, "the guards imply the condition under which `%s` is Some" % name if wit is None else
                      "`%s` is None when %s, and this unwrap is reached then: panic" %
                      (name, " and ".join(("" if v else "not ") + k[:70] for k, v in wit.items())), b.loc(c))
    rep.need(n >= 2, "unwraps of conditionally-Some locals")


# ---------------------------------------------------------------------------------------------
# R12.21  slices cut by a length computed elsewhere are in bounds
# ---------------------------------------------------------------------------------------------
def _lin_add(a, b_, sign=1):
    d = dict(a[0])
    for k, v in b_[0].items():
        d[k] = d.get(k, 0) + sign * v
        if d[k] == 0:
            del d[k]
    return (d, a[1] + sign * b_[1])


def _lin(b, e, depth=0):
    """linear form ({symbol: coefficient}, constant) of an integer expression, or None"""
    e = strip(e)
    k = e.get("k")
    if depth > 12:
        return None
    if k == "Lit" and isinstance(e.get("v"), int) and not isinstance(e.get("v"), bool):
        return ({}, e["v"])
    if k == "Binary" and e["op"] in ("+", "-"):
        l, r = _lin(b, e["l"], depth + 1), _lin(b, e["r"], depth + 1)
        if l is None or r is None:
            return None
        return _lin_add(l, r, 1 if e["op"] == "+" else -1)
    if k == "Local":
        init = b.local_init(e["id"])
        if init is not None and e["id"] not in b.local_assigned and (b.ty(e) or "") in ("usize", "u32", "u64", "isize", "i32", "i64"):
            return _lin(b, init, depth + 1)
        return ({"v:" + b.canon(e, 6): 1}, 0)
    if k == "MCall" and e["name"] == "len" and not e.get("args"):
        return _len_of(b, e["recv"], depth + 1)
    return None


def _len_of(b, r, depth=0):
    r = strip(r)
    while r.get("k") == "AddrOf":
        r = strip(r["e"])
    if r.get("k") == "Local" and r["id"] not in b.local_assigned and b.local_init(r["id"]) is not None:
        i = strip(b.local_init(r["id"]))
        while i.get("k") == "AddrOf":
            i = strip(i["e"])
        if i.get("k") == "Index":
            r = i
    if r.get("k") == "Index":
        idx = strip(r["idx"])
        if idx.get("k") == "Struct" and idx.get("adt") == "std::ops::RangeFrom":
            base = _len_of(b, r["base"], depth + 1)
            st = _lin(b, idx["fs"][0]["e"], depth + 1)
            if base is not None and st is not None:
                return _lin_add(base, st, -1)
        return None
    return ({"len:" + b.canon(r, 8): 1}, 0)


def _facts_at(b, n):
    """[(linear form f, c)] meaning f >= c, from the comparisons on the path to n"""
    out = []
    for pol, kind, g in b.guards(n, nested=True):
        if kind != "cond":
            continue
        todo = [(pol, strip(g))]
        while todo:
            pl, e = todo.pop()
            if e.get("k") == "Unary" and e.get("op") == "!":
                todo.append((not pl, strip(e["e"])))
            elif e.get("k") == "Binary" and e["op"] == ("&&" if pl else "||"):
                todo += [(pl, strip(e["l"])), (pl, strip(e["r"]))]
            elif e.get("k") == "Binary" and e["op"] in ("<", "<=", ">", ">=", "==", "!="):
                op = e["op"]
                if not pl:
                    op = {"<": ">=", "<=": ">", ">": "<=", ">=": "<", "==": "!=", "!=": "=="}[op]
                l, r = _lin(b, e["l"]), _lin(b, e["r"])
                if l is None or r is None:
                    continue
                if op == "<":
                    out.append((_lin_add(r, l, -1), 1))
                elif op == "<=":
                    out.append((_lin_add(r, l, -1), 0))
                elif op == ">":
                    out.append((_lin_add(l, r, -1), 1))
                elif op == ">=":
                    out.append((_lin_add(l, r, -1), 0))
                elif op == "==":
                    out.append((_lin_add(l, r, -1), 0))
                    out.append((_lin_add(r, l, -1), 0))
    return out


def _prove_nonneg(e, facts):
    """e >= 0 ?  (e a linear form)"""
    if e is None:
        return None

    def lens_nonneg(d):      # every symbol is a length (>= 0) with a non-negative coefficient
        return all(k.startswith("len:") and v >= 0 for k, v in d.items())
    if lens_nonneg(e[0]) and e[1] >= 0:
        return "lengths are non-negative"
    for f, c in facts:
        d = _lin_add(e, f, -1)
        if lens_nonneg(d[0]) and d[1] + c >= 0:
            return "from a comparison on the path"
    return None


def _fmt_lin(e):
    if e is None:
        return "?"
    parts = ["%s%s" % ("" if v == 1 else "%d*" % v, k.split("(")[-1].rstrip(")")[:40] if k.startswith("len:") else k[:40]) for k, v in sorted(e[0].items())]
    return " + ".join(parts + ([str(e[1])] if e[1] or not parts else []))


@RULES.rule("R12.21", "a buffer sliced by a length taken from another value is long enough on every path", floor=5)
def r12_21(rep):
    """`names_will_be_identical_after_mangling` compares a symbol with `_` + name (+ `@N`) on bytes: `mangled[1..=canonical.len()]`,
    `mangled[canonical.len() + 1..]`, `suffix[0]`.  The guard `mangled.len() < canonical.len() + 1 => return` is what keeps these in
    range; weakening it by one (`int foo_(void) __asm__("_foo");` has a symbol exactly as long as the name) panics on a slice index
    (seeded change).  For every function that indexes with a bound containing another value's `len()`, every index in that function
    is proved: the needed inequality is linear in lengths and constants and must follow from one comparison on the path."""
    prog = rep.prog
    n = 0
    per = defaultdict(int)
    for p, b in sorted(prog.bodies.items()):
        idxs = [x for x in b.nodes if x["k"] == "Index"]
        if not idxs:
            continue

        def cross(x):
            ib = b.canon(x["base"], 8)
            for m_ in b.walk(x["idx"]):
                if m_["k"] == "MCall" and m_["name"] == "len" and not m_.get("args") and b.canon(m_["recv"], 8) != ib:
                    return True
            return False
        if not any(cross(x) for x in idxs):
            continue
        fn = p.split("::")[-1]
        for x in idxs:
            idx = strip(x["idx"])
            L = _len_of(b, x["base"])
            obs = []
            if idx.get("k") == "Struct" and (idx.get("adt") or "").startswith("std::ops::Range"):
                fs = {f["f"]: f["e"] for f in idx["fs"]}
                adt = idx["adt"]
                if adt == "std::ops::RangeFull":
                    continue
                st = _lin(b, fs["start"]) if "start" in fs else ({}, 0)
                en = _lin(b, fs["end"]) if "end" in fs else L
                if adt == "std::ops::RangeToInclusive":
                    en = _lin_add(en, ({}, 1)) if en else None
                obs = [("end <= len", _lin_add(L, en, -1) if L and en else None), ("start <= end", _lin_add(en, st, -1) if st and en else None)]
            elif idx.get("k") == "Call" and (idx.get("callee") or "").startswith("std::ops::RangeInclusive"):
                lo, hi = _lin(b, idx["args"][0]), _lin(b, idx["args"][1])
                hi1 = _lin_add(hi, ({}, 1)) if hi else None
                obs = [("end < len", _lin_add(L, hi1, -1) if L and hi1 else None), ("start <= end + 1", _lin_add(hi1, lo, -1) if lo and hi1 else None)]
            else:
                i = _lin(b, idx)
                obs = [("index < len", _lin_add(L, _lin_add(i, ({}, 1)), -1) if L and i else None)]
            facts = _facts_at(b, x)
            n += 1
            key0 = "in-bounds@%s" % fn
            per[key0] += 1
            key = key0 if per[key0] == 1 else "%s#%d" % (key0, per[key0] - 1)
            bad = [(w, e) for w, e in obs if _prove_nonneg(e, facts) is None]
            rep.check(not bad, key, "in range: " + "; ".join("%s (%s >= 0)" % (w, _fmt_lin(e)) for w, e in obs) if not bad else
                      "`%s[%s]`: cannot show %s (needs %s >= 0) from the comparisons on the path: a slice index out of range panics"
                      % (b.canon(x["base"], 2)[-40:], b.canon(idx, 4)[:70], bad[0][0], _fmt_lin(bad[0][1])), b.loc(x))
    rep.need(n >= 5, "index expressions in functions that slice by another value's length")


# ---------------------------------------------------------------------------------------------
# R12.22 / R12.23
# ---------------------------------------------------------------------------------------------
@RULES.rule("R12.22", "every character rust_mangle detects in a C name is also replaced (shared with C01 R1.2)", floor=80)
def r12_22(rep):
    """clang accepts `$` in identifiers; MSVC decorations contain `@` and `?`.  `rust_mangle` detects the three and must rewrite each of
    them: a name that still contains one reaches `Ident::new` and panics (`struct point$ { int x$; };` after a seeded change that
    merged the three `replace` calls and lost the `$`).  Same rule instance as R1.2."""
    import c01
    c01.r1_2(rep)


@RULES.rule("R12.23", "an Objective-C selector piece always becomes an identifier: plain, raw, and with a `_` suffix are all tried", floor=1)
def r12_23(rep):
    """Selector pieces come from the header.  `as` needs the raw form `r#as`; `crate`, `self`, `super`, `Self` and a lone `_` cannot be
    raw and need the suffix form.  The chain `parse(name).or_else(parse("r#name")).or_else(parse("name_"))` ends in `expect`; without
    its last step `- (void)moveTo:(int)x _:(int)y;` panics with "Invalid identifier" (seeded change)."""
    prog = rep.prog
    n = 0
    for p, b in sorted(prog.bodies.items()):
        if not b.file.endswith("ir/objc.rs"):
            continue
        for c in b.calls(lambda x: x["k"] == "MCall" and x["name"] in ("expect", "unwrap")):
            attempts = [y for y in b.walk(c["recv"]) if y["k"] == "Call" and (y.get("callee") or "") == "syn::parse_str" and "Ident" in (y.get("gargs") or "")]
            if not attempts:
                # a helper that does the parsing
                for y in b.walk(c["recv"]):
                    if y["k"] == "Call" and (y.get("callee") or "") in prog.bodies:
                        hb = prog.bodies[y["callee"]]
                        attempts += [z for z in hb.walk() if z["k"] == "Call" and (z.get("callee") or "") == "syn::parse_str" and "Ident" in (z.get("gargs") or "")]
            if not attempts:
                continue
            n += 1
            lits = [y.get("v") for y in b.walk(c["recv"]) if y["k"] == "Lit" and isinstance(y.get("v"), str)]
            raw = any("r#" in l for l in lits)
            suffix = any("_" in l and "r#" not in l for l in lits)
            ok = len(attempts) >= 3 and raw and suffix
            rep.check(ok, "selector-piece-fallbacks@%s" % p.split("::")[-1], "%d attempts: plain, `r#name`, `name_`" % len(attempts) if ok else
                      "only %d attempt(s)%s%s before `%s`: a selector piece that is a keyword which cannot be raw (`_`, `self`, `crate`, ..) "
                      "panics" % (len(attempts), "" if raw else ", no raw form", "" if suffix else ", no `name_` form", c["name"]), b.loc(c))
    rep.need(n >= 1, "parse_str::<Ident> chains ending in expect/unwrap in ir/objc.rs")


@RULES.rule("R12.24", "a bit width is only handed to libclang's evaluator after the expression AND its parts were checked for template parameters", floor=4)
def r12_24(rep):
    """`clang_getFieldDeclBitWidth` crashes (SIGSEGV, no unwinding) on a value-dependent width.  `Cursor::bit_width` therefore asks
    `is_dependent_on_template_parameter` of the width expression first.  That test has to cover the expression node itself - is it a
    parameter, does it REFER to one (`int x : N;` is a bare DeclRefExpr without children) - and then its children; before the fix the
    second question was only asked of the children."""
    prog = rep.prog
    bw = rep.need(prog.fn("clang::Cursor::bit_width"), "clang::Cursor::bit_width")
    ev = [c for c in bw.calls(lambda x: x["k"] == "Call" and (x.get("callee") or "").endswith("clang_getFieldDeclBitWidth"))]
    rep.need(ev, "clang_getFieldDeclBitWidth in Cursor::bit_width")
    for c in ev:
        ok = any(kind == "cond" and not pol and "is_dependent_on_template_parameter" in bw.canon(g, 8) for pol, kind, g in bw.guards(c, nested=True))
        rep.check(ok, "evaluator-behind-dependence-test", "reached only when the width expression is not dependent" if ok else
                  "the evaluator is called without the dependence test in front of it", bw.loc(c))
    b = rep.need(prog.fn("clang::Cursor::is_dependent_on_template_parameter"), "clang::Cursor::is_dependent_on_template_parameter")
    selfp = b.params[0].get("id") if b.params else None
    own = []
    for c in b.calls(lambda x: x["k"] == "MCall" and x["name"] == "referenced"):
        r = strip(c["recv"])
        if r.get("k") == "Local" and r.get("id") == selfp:
            own.append(c)
    visits = [c for c in b.calls(lambda x: x["k"] == "MCall" and x["name"] == "visit") if strip(c["recv"]).get("id") == selfp]
    # ... or the node visitor itself is applied to `*self` first (it examines referents)
    for c in b.calls(lambda x: x["k"] == "Call" and (x.get("callee") or "").endswith("is_dependent_on_template_parameter::visitor")):
        if any(y["k"] == "Local" and y["id"] == selfp for a_ in c["args"] for y in b.walk(a_)) and not any(a["k"] == "Closure" for a in b.ancestors(c)):
            own.append(c)
    ok = bool(own) and bool(visits) and min(c["_i"] for c in own) < min(c["_i"] for c in visits)
    vis = prog.fn("clang::Cursor::is_dependent_on_template_parameter::visitor")
    if rep.check(vis is not None, "visitor-found", "the child visitor of is_dependent_on_template_parameter", b.loc(b.root)):
        tail = strip(vis.root.get("tail") or {})
        deep = tail.get("k") == "Path" and str(tail.get("def", "")).endswith("CXChildVisit_Recurse")
        rep.check(deep, "whole-expression-visited", "the visitor recurses into every child" if deep else
                  "the visitor's result for an ordinary node is `%s`, not CXChildVisit_Recurse: a parameter two levels down "
                  "(`int x : (N + 1) * 2;`) is not found and the evaluator is called on a dependent expression (SIGSEGV)" % vis.canon(tail, 2)[:60],
                  vis.loc(tail) if tail else vis.loc(vis.root))
    rep.check(ok, "own-referent-checked", "`self.referenced()` is examined before the children are visited" if ok else
              "the expression's own referent is never examined: `int x : N;` (a bare reference to the parameter, no children) passes as "
              "non-dependent and libclang's evaluator crashes on it", b.loc(b.root))


PANIC_MACROS = {"assert", "assert_eq", "assert_ne", "panic", "unreachable", "unimplemented", "todo"}


@RULES.rule("R12.25", "the failure branch of a parse step never asserts why it failed", floor=3)
def r12_25(rep):
    """`Item::from_ty`, `Item::parse`, `Type::from_clang_ty` .. return `Err(ParseError)` for whatever bindgen cannot model.  The caller
    may propagate that, skip the item or fall back to an opaque type; it must not assert what the reason was.  `Var::parse` asserted
    that only `auto` / unexposed types fail, which aborted on `_BitInt(7) garr[3];` once arrays of such types started to propagate
    their element's error instead of panicking themselves.  Per `Err(..)` arm of a match over a `Result<_, ParseError>`: no panicking
    macro and no unwrap inside."""
    from hir import pat_variants as _pv
    prog = rep.prog
    n = 0
    per = {}
    for p, b in sorted(prog.bodies.items()):
        if not (b.file.startswith("bindgen/ir/") or b.file.startswith("bindgen/parse")):
            continue
        for m in b.nodes:
            if m["k"] != "Match" or "ParseError" not in (b.ty(m["scrut"]) or ""):
                continue
            for a in m["arms"]:
                vs = _pv(a["pat"])
                if not any(v.endswith("::Err") or v.endswith("Result::Err") for v in vs):
                    continue
                n += 1
                bad = None
                for x in b.walk(a["body"]):
                    mn = b.macro_name(x)
                    if mn in ("panic", "unreachable", "unimplemented", "todo") and not any(b.macro_name(y) in ("assert", "assert_eq", "assert_ne", "debug_assert") for y in b.ancestors(x)):
                        bad = mn + "!"
                        break
                    if mn in ("assert", "assert_eq", "assert_ne") and x["k"] == "If":
                        # an assertion about WHAT failed (the kind of the type / cursor); bookkeeping assertions (begin/finish_parsing
                        # balance, R12.5) are not about the cause
                        src = b.canon(x["cond"], 8)
                        if "clang_sys::CX" in src or "::kind(" in src or "ParseError" in src:
                            bad = mn + "! on the kind"
                            break
                    if x["k"] == "MCall" and x.get("name") in ("unwrap", "expect") and "ParseError" in (b.ty(x["recv"]) or ""):
                        bad = "." + x["name"] + "()"
                        break
                fn = p.split("::")[-1]
                k0 = "err-arm-does-not-assert@%s" % fn
                per[k0] = per.get(k0, 0) + 1
                key = k0 if per[k0] == 1 else "%s#%d" % (k0, per[k0] - 1)
                rep.check(bad is None, key, "propagates / recovers" if bad is None else
                          "the `Err` arm contains `%s`: a construct that merely cannot be modelled aborts the whole run when the belief about "
                          "the cause is wrong" % bad, b.loc(a["body"]))
    rep.need(n >= 3, "`Err(..)` arms of matches over parse results in ir/")


# ---------------------------------------------------------------------------------------------
# R12.26  unsigned subtraction in the IR builders
# ---------------------------------------------------------------------------------------------
IR_SUBTRACTIONS_BY_INVARIANT = {
    # (function, canonical shape) -> the invariant that keeps it from wrapping (read, not decided)
    ("bitfields_to_allocation_units", "align*8-1"): "the alignment of an integer type is at least 1",
    ("bitfields_to_allocation_units", "offset-start"): "start_offset_in_struct is a copy of an earlier offset_in_struct, offsets of consecutive fields do not decrease",
    ("cursor_mangling", "len-4"): "inside `if mangling.ends_with(\"D0Ev\")`: the string has at least four bytes",
    ("namespace_aware_canonical_path", "len-1"): "a canonical path always holds the item's own name",
    ("format_method_call", "len-1"): "`split(':')` yields at least one piece",
}


def _sub_shape(b, n):
    l, r = b.canon(n["l"], 3), b.canon(n["r"], 3)
    if "len(" in l and r.startswith("lit:"):
        return "len-" + r[4:]
    if "* lit:8" in l.replace("'", "") and r == "lit:1":
        return "align*8-1"
    if "offset_in_struct" in l and "start_offset_in_struct" in r:
        return "offset-start"
    return l[:30] + "-" + r[:30]


@RULES.rule("R12.26", "no unsigned subtraction in the IR builders can wrap", floor=7)
def r12_26(rep):
    """`args.drain(args_len - num_expected_template_args..)` in `BindgenContext::instantiate_template` is only safe behind the guard
    `if args_len < num_expected_template_args { return None }`; weakening the guard ("defaulted trailing parameters are fine") makes
    the subtraction wrap - a panic inside libclang's visitor callback, i.e. an abort - for `Outer<Two<V>>` with a defaulted second
    parameter (seeded change).  Every `-` on an unsigned integer in `bindgen/ir/` is either proved from a comparison on its path (the
    prover of R12.16) or listed with the invariant it relies on."""
    prog = rep.prog
    n = 0
    per = {}
    for p, b in sorted(prog.bodies.items()):
        if not b.file.startswith("bindgen/ir/"):
            continue
        for x in b.nodes:
            if x["k"] != "Binary" or x["op"] != "-" or (b.ty(x) or "") not in ("usize", "u32", "u64", "u8", "u16") or b.macro_name(x):
                continue
            n += 1
            fn = p.split("::")[-1]
            why = _ge_proof(b, x)
            shape = _sub_shape(b, x)
            k0 = "no-wrap:%s:%s" % (fn, shape if len(shape) < 24 else "sub")
            per[k0] = per.get(k0, 0) + 1
            key = k0 if per[k0] == 1 else "%s#%d" % (k0, per[k0] - 1)
            if why is None and (fn, shape) in IR_SUBTRACTIONS_BY_INVARIANT:
                rep.ok(key, "by invariant: " + IR_SUBTRACTIONS_BY_INVARIANT[(fn, shape)], b.loc(x))
                continue
            rep.check(why is not None, key, why or
                      "`%s` can wrap: no comparison on the path shows the left side is at least the right side (debug builds panic, inside a "
                      "libclang callback that is an abort; release builds continue with a huge value)" % b.canon(x, 3)[:90], b.loc(x))
    rep.need(n >= 7, "unsigned subtractions in bindgen/ir/")
