"""Rule engine: rule registration, instance accounting, floors, known findings, evidence."""
import json
import os
import sys
import time
import traceback

import facts as facts_mod
from facts import VERIF, ToolError
from hir import Program

EVIDENCE_DIR = os.environ.get("BGV_EVIDENCE_DIR") or os.path.join(VERIF, "evidence")
KNOWN = os.path.join(VERIF, "known_findings.json")


class Missing(Exception):
    """An anchor the rule needs does not exist in the tree (tool error, fail closed)."""


class Rule:
    def __init__(self, rid, title, func, floor, tier, configs):
        self.id = rid
        self.title = title
        self.func = func
        self.floor = floor
        self.tier = tier
        self.configs = configs


class Report:
    """Per (rule, config) accounting handed to each rule function."""

    def __init__(self, run, rule, config, prog):
        self.run = run
        self.rule = rule
        self.config = config
        self.prog = prog
        self.instances = []  # (key, ok, detail, loc)
        self.notes = {}

    def ok(self, key, detail="", loc=""):
        self.instances.append((key, True, detail, loc))

    def bad(self, key, detail, loc=""):
        self.instances.append((key, False, detail, loc))

    def check(self, cond, key, detail="", loc=""):
        (self.ok if cond else self.bad)(key, detail, loc)
        return cond

    def note(self, k, v):
        self.notes[k] = v

    def need(self, obj, what):
        if obj is None or obj == [] or obj == {}:
            raise Missing("%s: anchor not found: %s" % (self.rule.id, what))
        return obj


class Run:
    def __init__(self, prop, tier):
        self.prop = prop
        self.tier = tier
        self.t0 = time.time()
        self.progs = {}
        self.infos = {}
        self.rules = []
        self.results = []  # dict per rule/config
        self.violations = []
        self.known_hits = []
        self.tool_errors = []
        self.extra = {}

    def prog(self, config):
        if config not in self.progs:
            f, info = facts_mod.load(config)
            self.progs[config] = Program(f)
            self.infos[config] = info
        return self.progs[config]


def load_known():
    try:
        with open(KNOWN) as fh:
            d = json.load(fh)
    except OSError:
        return {}
    out = {}
    for e in d.get("findings", []):
        out[(e["property"], e["rule"], e["instance"])] = e
    return out


def execute(prop, tier, rules, design_ref, assumptions, not_decided):
    """Run the rules of one property; print the interface lines; write evidence; return exit code."""
    run = Run(prop, tier)
    known = load_known()
    seed = int(os.environ.get("VERIF_SEED", "0") or 0)
    for rule in rules:
        if rule.tier == "thorough" and tier != "thorough":
            continue
        configs = rule.configs if tier == "thorough" else rule.configs[:1]
        for config in configs:
            entry = {"rule": rule.id, "title": rule.title, "config": config, "floor": rule.floor}
            try:
                prog = run.prog(config) if config != "none" else None
                rep = Report(run, rule, config, prog)
                rule.func(rep)
                n = len(rep.instances)
                fails = [i for i in rep.instances if not i[1]]
                entry.update({"instances": n, "failed": len(fails), "notes": rep.notes,
                              "samples": [{"key": k, "ok": ok, "detail": d, "loc": l} for k, ok, d, l in rep.instances[:6]]})
                if n < rule.floor:
                    run.violations.append({"rule": rule.id, "config": config, "instance": "<floor>",
                                           "detail": "rule matched %d instances, floor (counted on the pinned tree) is %d: "
                                                     "the construct the rule checks has disappeared" % (n, rule.floor), "loc": ""})
                for k, ok, d, l in fails:
                    kk = (prop, rule.id, k)
                    if kk in known:
                        if kk not in [x[0] for x in run.known_hits]:
                            run.known_hits.append((kk, d, l))
                    else:
                        run.violations.append({"rule": rule.id, "config": config, "instance": k, "detail": d, "loc": l})
            except Missing as e:
                entry["tool_error"] = str(e)
                run.tool_errors.append(str(e))
            except ToolError as e:
                entry["tool_error"] = str(e)
                run.tool_errors.append(str(e))
            except Exception:
                tb = traceback.format_exc()
                entry["tool_error"] = tb
                run.tool_errors.append("%s crashed:\n%s" % (rule.id, tb))
            run.results.append(entry)

    # de-duplicate violations reported under several configurations
    seen = set()
    uniq = []
    for v in run.violations:
        key = (v["rule"], v["instance"])
        if key in seen:
            continue
        seen.add(key)
        uniq.append(v)
    run.violations = uniq

    os.makedirs(os.path.join(EVIDENCE_DIR, "violations"), exist_ok=True)
    total = sum(r.get("instances", 0) for r in run.results)
    distinct = len({(r["rule"], s["key"]) for r in run.results for s in r.get("samples", [])})
    wall = round(time.time() - run.t0, 2)
    # thorough tier: re-validate the checker itself against its frozen mutants / benign variants (informational:
    # recorded in the evidence, never changes the verdict on the tree under analysis)
    selftest = None
    if tier == "thorough" and os.environ.get("BGV_REPO") is None and os.environ.get("BGV_NO_SELFTEST") is None:
        selftest = run_selftest(prop)
        run.extra["checker_selftest"] = selftest
    for kk, d, l in run.known_hits:
        print("KNOWN-FINDING: property=%s %s %s  [%s] %s" % (prop, kk[1], kk[2], l, d))
    replay_paths = []
    for i, v in enumerate(run.violations):
        path = os.path.join(EVIDENCE_DIR, "violations", "%s-%d.json" % (prop, i))
        with open(path, "w") as fh:
            json.dump({"property": prop, **v, "tree_hash": next(iter(run.infos.values()), {}).get("tree_hash")}, fh, indent=1)
        replay_paths.append(path)
        print("  %s %s: %s\n      at %s\n      %s" % (v["rule"], v["config"], v["instance"], v["loc"], v["detail"]))
        print("VIOLATION property=%s replay=%s" % (prop, path))
    ev = {
        "property_id": prop,
        "tier": tier,
        "seed": seed,
        "level": "other",
        "coverage": {
            "explanation": "Static analysis of /repo's current source (no execution of bindgen). Rules are evaluated over the "
                           "type-checked HIR of crate `bindgen` extracted by a rustc_private driver under the real cargo build "
                           "graph (resolved callees, field ADTs, enum variants, macro call sites), plus syntax-tree analyses "
                           "where stated. Each rule lists the instances it enumerated; a rule whose instance count falls below "
                           "the floor counted on the pinned tree fails. See DESIGN.md " + design_ref + ".",
            "configurations": list(run.infos.values()),
            "rules": run.results,
            "evaluations": total,
            "distinct_nontrivial": total,
            "rule": "one evaluation = one rule instance (a call site, field, match arm, table row or emission site resolved from "
                    "the type-checked program); all are distinct by (rule, instance key)",
            "samples": [s for r in run.results for s in r.get("samples", [])[:2]][:12] or ["<none>"],
            "known_findings_hit": [list(k[0]) for k in run.known_hits],
            "not_decided": not_decided,
            "exhaustive": False,
            **run.extra,
        },
        "assumptions": assumptions,
        "wall_s": wall,
        "violations": len(run.violations),
    }
    with open(os.path.join(EVIDENCE_DIR, prop + ".json"), "w") as fh:
        json.dump(ev, fh, indent=1)
    print("%s %s: %d rule runs, %d instances, %d violations, %d known findings, %d tool errors, %.1fs" %
          (prop, tier, len(run.results), total, len(run.violations), len(run.known_hits), len(run.tool_errors), wall))
    for r in run.results:
        print("   %-7s %-7s instances=%-4s failed=%-3s %s%s" % (r["rule"], r["config"], r.get("instances", "-"), r.get("failed", "-"),
                                                          r["title"], "  TOOL-ERROR" if "tool_error" in r else ""))
    if run.violations:
        return 1
    if run.tool_errors:
        for t in run.tool_errors:
            print("TOOL-ERROR: " + t, file=sys.stderr)
        return 2
    return 0


def run_selftest(prop):
    """Apply every frozen mutant / benign variant of this property to a scratch copy of /repo and re-run the quick check."""
    import subprocess
    fx = os.path.join(VERIF, "fixtures", "mutants", prop + ".json")
    if not os.path.exists(fx):
        return {"fixtures": 0}
    try:
        seed = os.environ.get("VERIF_SEED", "0") or "0"
        r = subprocess.run([os.path.join(VERIF, "selftest", "mutants.py"), "--prop", prop, "-j", "8", "--sample", "16", "--seed", seed], cwd=VERIF,
                           stdout=subprocess.PIPE, stderr=subprocess.STDOUT, text=True, timeout=3600)
    except Exception as e:  # noqa
        return {"error": str(e)}
    lines = [l.split() for l in r.stdout.splitlines() if l.startswith(prop + " ")]
    res = {"note": "a seeded sample of at most 16 fixtures per run; `selftest/mutants.py --prop %s` runs all" % prop, "fixtures": len(lines),
           "mutants_caught": sum(1 for l in lines if l[-1] == "ok-caught"),
           "benign_silent": sum(1 for l in lines if l[-1] == "ok-silent"),
           "not_as_expected": [" ".join(l[1:]) for l in lines if not l[-1].startswith("ok")]}
    return res


class RuleSet:
    def __init__(self, prop, design_ref, assumptions=None, not_decided=None):
        self.prop = prop
        self.design_ref = design_ref
        self.assumptions = assumptions or []
        self.not_decided = not_decided or []
        self.rules = []

    def rule(self, rid, title, floor=1, tier="quick", configs=("cli", "lib", "min")):
        def deco(f):
            self.rules.append(Rule(rid, title, f, floor, tier, list(configs)))
            return f
        return deco

    def main(self, tier):
        return execute(self.prop, tier, self.rules, self.design_ref,
                       ["rustc's name resolution and type inference (facts are read from the compiler's own tables)",
                        "the cargo feature configurations analysed are the ones listed under coverage.configurations"] + self.assumptions,
                       self.not_decided)


class KeyFilter:
    """A Report seen through a predicate on instance keys: a rule shared between two properties reports, under the second one,
    only the instances that matter for it (everything else is evaluated but neither counted nor reported)."""
    def __init__(self, rep, keep):
        self._rep = rep
        self._keep = keep

    def __getattr__(self, name):
        return getattr(self._rep, name)

    def check(self, cond, key, detail="", loc=""):
        return self._rep.check(cond, key, detail, loc) if self._keep(key) else bool(cond)

    def bad(self, key, detail, loc=""):
        if self._keep(key):
            self._rep.bad(key, detail, loc)

    def ok(self, key, detail="", loc=""):
        if self._keep(key):
            self._rep.ok(key, detail, loc)
