"""C04 — functions and globals bind the right symbol with a call-compatible signature.

Not decided here: ABI classification of by-value aggregates, that clang's mangled name is the linker's name, argument
promotion, anything that needs the two compilers.  Decided: the ABI-name tables (R4.1), the link-name discipline and the
agreement of the argument namers (R4.2) and the structural lowering steps every signature passes through (R4.3), against
oracle/rust_abi.json (written from the Rust reference, clang-c/Index.h and the object-format decoration rules).
"""
import json
import os
import re

from engine import RuleSet
from hir import strip, pat_variants
from qq import quote_sites, guard_atoms, has_atom
from c02 import (val, leaves, show, match_rows, first_match, scrut_ty, lookup, variants_of, callee_of, find_calls, short,
                 alt_str, attr_run, vec_sources, deep_walk, is_quote_root, quote_tokens, gkey)

RULES = RuleSet("C04", "§3 C02 / C04 / C05",
                not_decided=["ABI classification of by-value structs / unions / vectors (register vs memory) — needs both compilers",
                             "that libclang's mangled name equals the symbol the C compiler emits",
                             "integer promotion / default argument promotion of variadic arguments at the call site",
                             "idempotence of rust_mangle (the two spellings `rust_ident(x)` and `rust_ident(rust_mangle(x))` are treated as equal)",
                             "that the oracle table itself matches the Rust reference / clang-c/Index.h (it is reviewed, not derived)"])

with open(os.path.join(os.path.dirname(os.path.abspath(__file__)), "oracle", "rust_abi.json")) as _fh:
    ORACLE = json.load(_fh)

ABI = "ir::function::Abi"
CABI = "ir::function::ClangAbi"
NONE = ("path", "std::prelude::v1::None")


def norm(s):
    return re.sub(r"[^a-z0-9]", "", s.lower())


def display_table(rep):
    """Abi variant name -> string, from `impl Display for Abi`."""
    prog = rep.prog
    b = rep.need(prog.impl_fn("std::fmt::Display", ABI, "fmt"), "impl Display for Abi")
    m = rep.need(first_match(b, lambda n: scrut_ty(b, n).endswith("function::Abi")), "match *self in Display for Abi")
    rows = match_rows(b, m)
    out = {}
    for v in variants_of(prog, ABI):
        alt, body = lookup(rows, "%s::%s" % (ABI, v))
        if body is not None:
            r = val(b, body)
            out[v] = (r[1] if r[0] == "lit" and isinstance(r[1], str) else None, body)
    return b, m, out


# ------------------------------------------------------------------------------------------------
# R4.1 — ABI tables
# ------------------------------------------------------------------------------------------------
@RULES.rule("R4.1", "Abi <-> string tables name real Rust ABIs, FromStr inverts Display, CXCallingConv_* maps to the same convention", floor=51)
def r4_1(rep):
    """Necessary condition: the string printed by `Display for Abi` is pasted verbatim after `extern` in every function
    declaration and function-pointer type.  Breaks: swapping "stdcall"/"fastcall" makes every __stdcall function of a Win32
    header be called with its first two arguments in ECX/EDX; `CXCallingConv_X86StdCall => Abi::C` unbalances the stack on
    every call (callee pops, caller pops again)."""
    prog = rep.prog
    strings = {k for k in ORACLE["rust_abi_strings"]}
    variants = rep.need(variants_of(prog, ABI), "enum " + ABI)
    db, dm, disp = display_table(rep)
    # the match result is what is written (`s.fmt(f)`), nothing is appended
    tail = db.root.get("tail")
    okw = tail is not None and strip(tail)["k"] == "MCall" and "str as std::fmt::Display>::fmt" in callee_of(strip(tail)) and \
        any(x is dm for x in deep_walk(db, strip(tail)["recv"]))
    rep.check(okw, "display:writes-the-table-entry", "Display::fmt writes exactly the string selected by the table", db.loc(db.root))
    for v in variants:
        key = "display:" + v
        if v not in disp:
            rep.bad(key, "no arm for Abi::%s" % v, db.loc(dm))
            continue
        s, body = disp[v]
        ok = s in strings and norm(s) == norm(v)
        rep.check(ok, key, "Abi::%s prints %r: %s" % (v, s, "a Rust ABI string naming that convention" if ok else
                                                      ("not an ABI string rustc accepts" if s not in strings else "a real ABI string, but of a DIFFERENT convention than the variant")),
                  db.loc(body))
    # FromStr is the inverse of Display
    fb = rep.need(prog.impl_fn("std::str::FromStr", ABI, "from_str"), "impl FromStr for Abi")
    fm = rep.need(first_match(fb, lambda n: any(isinstance(a, tuple) and a[0] == "lit" and isinstance(a[1], str) for a, _, _, _ in match_rows(fb, n))), "match s in FromStr for Abi")
    rep.check("param:s" in fb.canon(fm["scrut"], 4), "fromstr:scrutinee", "the table is indexed by the argument", fb.loc(fm))
    parsed = {}
    for alt, guard, body, i in match_rows(fb, fm):
        r = val(fb, body)
        if isinstance(alt, tuple) and alt[0] == "lit":
            tgt = r[2][0] if r[0] == "ctor" and r[1].endswith("::Ok") and r[2] else None
            v = short(tgt[1]) if tgt and tgt[0] == "path" and tgt[1].startswith(ABI + "::") else None
            parsed[alt[1]] = v
            want = [x for x, (s, _) in disp.items() if s == alt[1]]
            rep.check(guard is None and v is not None and want == [v], "fromstr:" + str(alt[1]), "%r parses to %s; Display prints it for %s" % (alt[1], v, want or "no variant"), fb.loc(body))
        elif alt == "_":
            rep.check(r[0] == "ctor" and r[1].endswith("::Err"), "fromstr:other", "any other string is rejected: %s" % show(r, 60), fb.loc(body))
    for v, (s, body) in disp.items():
        rep.check(parsed.get(s) == v, "roundtrip:" + v, "from_str(%r) = %s" % (s, parsed.get(s)), fb.loc(fm))
    # ToTokens: Abi -> its Display string as a literal; ClangAbi::Known delegates, Unknown never yields tokens
    tb = rep.need(prog.impl_fn("quote::ToTokens", ABI, "to_tokens"), "impl ToTokens for Abi")
    qs = quote_sites(tb)
    oka = False
    if len(qs) == 1 and len(qs[0].tokens) == 1 and qs[0].tokens[0].startswith("#"):
        loc = qs[0].interps().get(qs[0].tokens[0][1:])
        src = tb.canon(loc, 5) if loc is not None else ""
        oka = "ToString>::to_string(param:self)" in src
    rep.check(oka, "totokens:Abi", "the token is `self.to_string()` (the Display table) and nothing else", tb.loc(tb.root))
    cb = rep.need(prog.impl_fn("quote::ToTokens", CABI, "to_tokens"), "impl ToTokens for ClangAbi")
    cm = rep.need(first_match(cb, lambda n: scrut_ty(cb, n).endswith("ClangAbi")), "match *self in ToTokens for ClangAbi")
    for alt, guard, body, i in match_rows(cb, cm):
        r = val(cb, body)
        if alt == CABI + "::Known":
            ok = r[0] == "call" and "function::Abi as quote::ToTokens>::to_tokens" in r[1] and "~%s::Known.0" % CABI in cb.canon(strip(body)["recv"], 4)
            rep.check(ok, "totokens:ClangAbi::Known", "delegates to the wrapped Abi: %s" % show(r, 80), cb.loc(body))
        elif alt == CABI + "::Unknown":
            rep.check(r == ("panic",), "totokens:ClangAbi::Unknown", "an unknown convention never becomes tokens (panics): %s" % show(r, 60), cb.loc(body))
        else:
            rep.bad("totokens:ClangAbi:" + alt_str(alt), "unexpected arm", cb.loc(body))

    # get_abi
    gb = rep.need(prog.fn("ir::function::get_abi"), "fn get_abi")
    gm = rep.need(first_match(gb, lambda n: any(isinstance(a, str) and "CXCallingConv_" in a for a, _, _, _ in match_rows(gb, n))), "match cc in get_abi")
    rep.check("param:" in gb.canon(gm["scrut"], 3), "get_abi:scrutinee", "indexed by the argument", gb.loc(gm))
    cc = ORACLE["calling_conv"]
    seen = set()
    for alt, guard, body, i in match_rows(gb, gm):
        r = val(gb, body)
        if isinstance(alt, str) and alt != "_":
            name = short(alt)
            seen.add(name)
            key = "get_abi:" + name
            got = None
            if r[0] == "ctor" and r[1] == CABI + "::Known" and r[2] and r[2][0][0] == "path":
                got = short(r[2][0][1])
            elif r[0] == "ctor" and r[1] == CABI + "::Unknown":
                got = "<unknown>"
            if name not in cc:
                rep.bad(key, "%s is not a CXCallingConv enumerator known to the oracle (mapped to %s)" % (name, got), gb.loc(body))
                continue
            want = cc[name]
            gs = disp.get(got, (None,))[0] if got not in (None, "<unknown>") else None
            if got == "<unknown>":
                rep.ok(key, "%s -> unknown (no binding is generated; always sound)" % name, gb.loc(body))
            elif want is None:
                rep.bad(key, "%s -> Abi::%s (extern \"%s\"), but Rust has no ABI string for that convention: %s"
                        % (name, got, gs, ORACLE["calling_conv_notes"].get(name, "it must be treated as unknown")), gb.loc(body))
            else:
                rep.check(guard is None and gs == want, key, "%s -> Abi::%s = extern \"%s\" (oracle: \"%s\")" % (name, got, gs, want), gb.loc(body))
        else:
            ok = r[0] == "ctor" and r[1] == CABI + "::Unknown"
            rep.check(ok, "get_abi:other", "every other convention is Unknown: %s" % show(r, 60), gb.loc(body))
    for must in ("CXCallingConv_C", "CXCallingConv_X86StdCall", "CXCallingConv_X86FastCall"):
        rep.check(must in seen, "get_abi:present:" + must, "%s has a row" % must, gb.loc(gm))
    # the ABI of a signature is get_abi(<clang's calling convention of that type>)
    ft = rep.need(prog.fn("ir::function::FunctionSig::from_ty"), "fn FunctionSig::from_ty")
    lits = [n for n in ft.walk() if n["k"] == "Struct" and n.get("adt", "").endswith("function::FunctionSig")]
    if rep.check(len(lits) == 1, "from_ty:literal", "one FunctionSig literal", ft.loc(ft.root)):
        fs = {f["f"]: f["e"] for f in lits[0]["fs"]}
        src = ft.canon(fs["abi"], 6)
        calls = [c for c in deep_walk(ft, fs["abi"]) if c["k"] == "Call" and callee_of(c).endswith("function::get_abi")]
        okc = len(calls) == 1
        cconv = ""
        if okc:
            a = strip(calls[0]["args"][0])
            d = ft.local_def.get(a.get("id")) if a["k"] == "Local" else None
            cconv = ft.canon(d[0][1].get("init", {}), 5) if d and d[0][0] == "let" else ft.canon(a, 5)
            okc = "clang::Type::call_conv" in cconv
        rep.check(okc, "from_ty:abi-source", "abi = get_abi(<type>.call_conv()): %s" % cconv[-80:], ft.loc(lits[0]))
        vsrc = ft.canon(fs["is_variadic"], 5)
        rep.check("clang::Type::is_variadic(param:ty)" in vsrc, "from_ty:variadic-source", "is_variadic = ty.is_variadic(): %s" % vsrc[-60:], ft.loc(lits[0]))


# ------------------------------------------------------------------------------------------------
# R4.2 — link names, variadic tail, argument namers
# ------------------------------------------------------------------------------------------------
def component_exprs(b, n, path):
    """the expressions that provide component `path` (tuple indices) of the value of n: descends through blocks, if / match
    branches (not their conditions) to tuple literals; falls back to the whole expression."""
    n = strip(n)
    if not path:
        return [n]
    k = n["k"]
    if k == "Block" and n.get("tail") is not None:
        return component_exprs(b, n["tail"], path)
    if k == "If":
        return component_exprs(b, n["then"], path) + (component_exprs(b, n["else"], path) if "else" in n else [])
    if k == "Match":
        out = []
        for a in n["arms"]:
            out += component_exprs(b, a["body"], path)
        return out
    if k == "Tup" and path[0][0] == "tuple" and int(path[0][1]) < len(n["es"]):
        return component_exprs(b, n["es"][int(path[0][1])], path[1:])
    return [n]


def local_ids(b, n):
    """ids of all locals the VALUE of expression n is computed from, through let-initialisers; for a local bound by a tuple
    pattern only the matching tuple component of the initialiser is followed."""
    out = set()
    stack = [n]
    while stack:
        x = stack.pop()
        for y in b.walk(x):
            if y["k"] == "Local" and y["id"] not in out:
                out.add(y["id"])
                d = b.local_def.get(y["id"])
                if d and d[0][0] == "let" and d[0][1].get("init") is not None:
                    stack += component_exprs(b, d[0][1]["init"], list(d[1]))
    return out


def base_local(n):
    n = strip(n)
    while n.get("k") in ("MCall",) and n.get("name") in ("as_str", "as_ref", "clone", "to_owned", "to_string", "as_deref"):
        n = strip(n["recv"])
    return n["id"] if n.get("k") == "Local" else None


def attrs_before(q, kw1, kw2):
    """names of the `#( #x )*` attribute lists that directly precede `kw1 kw2` in the quote."""
    t = q.tokens
    for j in range(len(t) - 1):
        if t[j] == kw1 and t[j + 1] == kw2:
            return [x for what, x in attr_run(t, j) if what == "rep"]
    return []


def namer_signature(b):
    """(initial counter, step, 'pre'|'post', literal prefix, named-branch spelling) of an argument namer."""
    counter = None
    for lid, d in b.local_def.items():
        if d[0][0] == "let" and lid in b.local_mut and strip(d[0][1].get("init", {"k": "?"})).get("k") == "Lit" and \
                isinstance(strip(d[0][1]["init"]).get("v"), int) and not isinstance(strip(d[0][1]["init"]).get("v"), bool):
            counter = (lid, strip(d[0][1]["init"])["v"])
    if counter is None:
        return None
    lid, init = counter
    steps = [n for n in b.walk() if n["k"] == "AssignOp" and strip(n["l"]).get("id") == lid]
    if len(steps) != 1 or steps[0]["op"] not in ("+", "+=") or strip(steps[0]["r"]).get("k") != "Lit":
        return (init, "?", "?", "?", "?")
    step = strip(steps[0]["r"])["v"]
    uses = [n for n in b.walk() if n["k"] == "Local" and n["id"] == lid and b.parent[n["_i"]] is not steps[0]]
    fmts = [n for n in b.walk() if n["k"] == "Lit" and isinstance(n.get("v"), str) and b.macro_name(n) == "format"]
    prefix = "|".join(sorted({"".join(re.findall(r"[A-Za-z_]+", n["v"])) for n in fmts}))
    order = "?"
    if uses:
        order = "pre" if steps[0]["_i"] < min(u["_i"] for u in uses) else "post"
    # the branch for named arguments
    named = "?"
    for n in b.walk():
        if n["k"] == "If" and strip(n["cond"])["k"] == "LetCond":
            c = b.canon(n["then"], 6)
            if "rust_mangle" in c or "rust_ident" in c:
                named = "mangled"
            else:
                named = c[-60:]
            break
    return (init, step, order, prefix, named)


@RULES.rule("R4.2", "link_name is emitted unless the platform decoration of the Rust name yields the symbol; variadic tail; argument namers agree", floor=46)
def r4_2(rep):
    """Necessary condition: rustc links an extern item against the item's own identifier unless #[link_name] says otherwise, so
    whenever the identifier differs from the C symbol (keyword mangling `type_`, overload suffix `foo1`, C++ mangling, asm
    labels, renaming callbacks) the attribute must be present and carry clang's mangled name with the \\u{1} no-mangle marker.
    Breaks: dropping the `!` in `(!names_will_be_identical..).then_some(mangled_name)` removes link_name from every C++ function;
    `link_name::<true>` makes LLVM prepend `_` again on Mach-O; naming unnamed arguments `arg{n}` from 0 in one namer and from 1
    in the other makes a constructor wrapper call `S_S(__bindgen_tmp.as_mut_ptr(), arg0)` with `arg1` as its parameter."""
    prog = rep.prog
    _, _, disp = display_table(rep)
    # ---- attributes::link_name -----------------------------------------------------------------------------------------
    lb = rep.need(prog.fn("codegen::helpers::attributes::link_name"), "fn attributes::link_name")
    qs = quote_sites(lb)
    okq = len(qs) == 1 and qs[0].tokens[:4] == ["#", "[", "link_name", "="] and qs[0].tokens[4].startswith("#")
    rep.check(okq, "link_name:attribute", "emits `#[link_name = #name]`: %s" % (" ".join(qs[0].tokens) if qs else "-"), lb.loc(lb.root))
    if okq:
        loc = qs[0].interps().get(qs[0].tokens[4][1:])
        init = lb.local_init(loc["id"]) if loc is not None else None
        iff = strip(init) if init is not None else {"k": "?"}
        ok = iff.get("k") == "If" and "MANGLE" in lb.canon(iff["cond"], 3)
        if ok:
            then_l = [n["v"] for n in lb.walk(iff["then"]) if n["k"] == "Lit" and isinstance(n.get("v"), str)]
            else_l = [n["v"] for n in lb.walk(iff["else"]) if n["k"] == "Lit" and isinstance(n.get("v"), str)] if "else" in iff else []
            ok = not then_l and any("\x01" in s for s in else_l) and "param:name" in lb.canon(iff["then"], 4)
        rep.check(ok, "link_name:no-mangle-marker", "MANGLE=false prefixes the name with \\u{1} (LLVM: do not decorate again), MANGLE=true passes it through", lb.loc(lb.root))

    # ---- names_will_be_identical_after_mangling ------------------------------------------------------------------------
    nb = rep.need(prog.fn("codegen::utils::names_will_be_identical_after_mangling"), "fn names_will_be_identical_after_mangling")
    pn = [d[2]["name"] for lid, d in sorted(nb.local_def.items()) if d[0][0] == "param" and not d[1]]
    rep.check(len(pn) == 3, "mangling:params", "parameters %s" % pn, nb.loc(nb.root))
    P_CANON, P_MANGLED, P_CC = ("param:" + x for x in (pn + ["?", "?", "?"])[:3])
    rets = []
    for n in nb.walk():
        if n["k"] == "Ret":
            rets.append((val(nb, n), n))
    tail = nb.root.get("tail")
    # fast path
    fast = [n for v, n in rets if v == ("ret", ("lit", True))]
    okf = len(fast) == 1 and [nb.canon(g, 4) for pol, kind, g in nb.guards(fast[0]) if kind == "cond" and pol] in (
        ["(%s == %s)" % (P_CANON, P_MANGLED)], ["(%s == %s)" % (P_MANGLED, P_CANON)])
    rep.check(okf, "mangling:equal-names", "returns true immediately only when the two names are equal", nb.loc(fast[0]) if fast else nb.loc(nb.root))
    # decoration table
    dm = rep.need(first_match(nb, lambda n: P_CC in nb.canon(n["scrut"], 3)), "match call_conv in names_will_be_identical_after_mangling")
    deco = ORACLE["decoration"]
    for alt, guard, body, i in match_rows(nb, dm):
        r = val(nb, body)
        who = None
        if alt == "std::prelude::v1::None":
            who = "<variable>"
        elif isinstance(alt, tuple) and alt[0] == "std::prelude::v1::Some" and isinstance(alt[1], tuple) and alt[1][0] == CABI + "::Known" and isinstance(alt[1][1], str):
            who = disp.get(short(alt[1][1]), (None,))[0]
        elif alt in ("std::prelude::v1::Some", "_") or (isinstance(alt, tuple) and alt[0] == "std::prelude::v1::Some"):
            rep.check(r == ("ret", ("lit", False)), "mangling:decoration:other", "any other convention: never assume the names agree (%s)" % show(r, 40), nb.loc(body))
            continue
        key = "mangling:decoration:%s" % who
        want = deco.get(who)
        if r == ("ret", ("lit", False)):
            rep.ok(key, "%s: link_name always emitted when the names differ" % who, nb.loc(body))
            continue
        got = None
        if r[0] == "tup" and len(r[1]) == 2 and r[1][0][0] == "lit" and r[1][1][0] == "lit":
            got = [chr(r[1][0][1]) if isinstance(r[1][0][1], int) else r[1][0][1], r[1][1][1]]
        rep.check(want is not None and got == want, key, "extern \"%s\": decoration (prefix, @N suffix) = %s, oracle %s" % (who, got, want), nb.loc(body))
    # the (prefix, suffix) pair feeds the checks below
    fails = [(n, [(pol, nb.canon(g, 9)) for pol, kind, g in nb.guards(n) if kind == "cond"]) for v, n in rets if v == ("ret", ("lit", False))]
    mb = "as_bytes(%s)" % P_MANGLED
    cbs = "as_bytes(%s)" % P_CANON

    def has_fail(pred):
        return any(conds and conds[-1][0] and pred(conds[-1][1], conds) for n, conds in fails)

    suffix_pos = lambda conds: any(p and "match(" in c and not ("[" in c.split("match(")[0]) and c.startswith("match(") for p, c in conds)
    suffix_neg = lambda conds: any((not p) and c.startswith("match(") for p, c in conds)
    rep.check(has_fail(lambda c, cs: mb + "[lit:0] != match(" in c), "mangling:check:prefix-byte",
              "fails unless the mangled name starts with the convention's prefix byte", nb.loc(nb.root))
    rep.check(has_fail(lambda c, cs: mb + "[std::ops::RangeInclusive::<Idx>::new(lit:1, " in c and "len(" in c and "!=" in c and c.endswith(cbs + ")")), "mangling:check:body",
              "fails unless mangled[1..=len(canonical)] == canonical", nb.loc(nb.root))
    rep.check(has_fail(lambda c, cs: "!= lit:64" in c and "is_ascii_digit" in c and "||" in c and suffix_pos(cs)), "mangling:check:suffix",
              "with a suffix expected: fails unless the rest is `@` followed by decimal digits only", nb.loc(nb.root))
    rep.check(has_fail(lambda c, cs: ("len(%s) != (" % ("bitflags::__private::core::str::<impl str>::" + mb) in c or "len(" in c and "!=" in c and "+ lit:1" in c) and suffix_neg(cs)),
              "mangling:check:exact-length", "without a suffix: fails unless the mangled name is exactly one byte longer", nb.loc(nb.root))
    rep.check(tail is not None and val(nb, tail) == ("lit", True), "mangling:accepts-last", "true is returned only after all checks", nb.loc(nb.root))
    # the `_` / `@` decoration exists only on Mach-O and 32-bit x86 Windows: accepting it needs to know the target
    knows_target = any("target" in callee_of(c).lower() or "BindgenContext" in (nb.ty(c) or "") for c in nb.calls()) or \
        any("BindgenContext" in (prog.types[p.get("t")] if p.get("t") is not None else "") for p in nb.params)
    callers_guard = []
    for path, b in prog.bodies.items():
        for c in b.calls(lambda n: callee_of(n).endswith("utils::names_will_be_identical_after_mangling")):
            callers_guard.append(any("target" in a[0].lower() or "abi_kind" in a[0].lower() for a in guard_atoms(b, c)))
    rep.check(knows_target or (callers_guard and all(callers_guard)), "mangling:prefix-needs-target",
              "a leading `_` (cdecl/stdcall) or `@` (fastcall) is accepted as platform decoration without consulting the target: on ELF targets (%s) no "
              "decoration exists, so C symbol `_foo` and Rust item `foo` are different symbols, yet no #[link_name] is emitted "
              "(e.g. `int foo(void) __asm__(\"_foo\");`, or `_foo` renamed to `foo` by a ParseCallbacks::item_name)"
              % ", ".join(ORACLE["decoration_targets"]["no_prefix"][:2]), nb.loc(dm))

    # ---- Function::codegen ---------------------------------------------------------------------------------------------
    fb = rep.need(prog.impl_fn("codegen::CodeGenerator", "ir::function::Function", "codegen"), "<Function as CodeGenerator>::codegen")
    decl = [q for q in quote_sites(fb) if q.has("pub", "fn") and "extern" in q.tokens]
    if rep.check(len(decl) == 1, "function:decl-site", "one `extern #abi { pub fn .. }` emission (found %d)" % len(decl), fb.loc(fb.root)):
        q = decl[0]
        ints = q.interps()
        t = q.tokens
        ok_shape = q.has("extern", "#abi", "{") and q.has("pub", "fn", "#ident", "(") and q.has(")", "#ret", ";")
        rep.check(ok_shape, "function:decl-shape", "`extern #abi { #(#attributes)* pub fn #ident ( #(#args),* ) #ret ; }`: %s" % " ".join(t), q.loc())
        calls = find_calls(fb, fb.root, "utils::names_will_be_identical_after_mangling")
        if rep.check(len(calls) == 1, "function:mangling-call", "one call of names_will_be_identical_after_mangling", fb.loc(fb.root)):
            c = calls[0]
            a0, a1, a2 = c["args"]
            name_lid = base_local(a0)
            ident_ids = local_ids(fb, ints["ident"]) if "ident" in ints else set()
            ident_src = fb.canon(ints["ident"], 3) if "ident" in ints else ""
            rep.check(name_lid is not None and name_lid in ident_ids and "rust_ident" in ident_src, "function:compared-name-is-the-identifier",
                      "the name compared with the symbol is the one that becomes `pub fn #ident` (through rust_ident)", fb.loc(c))
            s1 = fb.canon(a1, 6)
            rep.check("Function::mangled_name" in s1 and "Function::name" in s1 and "unwrap_or" in s1, "function:symbol-source",
                      "the symbol is clang's mangled name, else the C name: %s" % s1[-110:], fb.loc(c))
            abi_lid = base_local(strip(a2)["args"][0]) if strip(a2)["k"] == "Call" and strip(a2)["args"] else None
            rep.check(abi_lid is not None and "abi" in ints and ints["abi"]["id"] == abi_lid, "function:abi-is-the-declared-abi",
                      "the calling convention used for the comparison is the `extern #abi` of the declaration", fb.loc(c))
            # (!identical).then_some(mangled)
            neg = False
            then = None
            for a in fb.ancestors(c):
                if a["k"] == "Unary" and a["op"] == "!":
                    neg = not neg
                if a["k"] == "MCall" and a["name"] in ("then_some", "then") and any(x is c for x in fb.walk(a["recv"])):
                    then = a
                    break
                if a["k"] == "If" and any(x is c for x in fb.walk(a["cond"])):
                    then = a
                    break
            ok_then = False
            if then is not None and then["k"] == "MCall":
                ok_then = neg and base_local(then["args"][0]) == base_local(a1)
            elif then is not None:
                # if identical { None } else { Some(mangled) }
                v = val(fb, then)
                ok_then = (not neg and leaves(v[2]) == [NONE] and "Some" in show(v[3])) or (neg and leaves(v[3]) == [NONE])
            rep.check(ok_then, "function:link-name-iff-not-identical", "Some(<that symbol>) exactly when the names will NOT be identical", fb.loc(c))
        pushes = [c for c in fb.calls(lambda n: callee_of(n).endswith("attributes::link_name"))]
        raw = [c for c in pushes if c.get("gargs") == "[false]"]
        if rep.check(len(raw) == 1, "function:link-name-push", "one link_name::<false>(..) (found %d)" % len(raw), fb.loc(fb.root)):
            c = raw[0]
            src = fb.canon(c["args"][0], 6)
            # user override first, else the mangling decision
            ov = "Function::link_name" in src and "or_else" in src
            clos = [a for a in fb.ancestors(calls[0]) if a["k"] == "Closure"] if calls else []
            in_clo = bool(clos) and ("closure@" + clos[0]["def"]) in src
            rep.check(ov and in_clo, "function:link-name-value", "the attribute carries self.link_name() (callback override) or else the symbol chosen above: %s" % src[-120:], fb.loc(c))
            atoms = guard_atoms(fb, c)
            extra = [a for a in atoms if not any(a[0] == x[0] and a[1] == x[1] for x in guard_atoms(fb, q.root))]
            okg = all(("let std::prelude::v1::Some" in a[0] and a[1]) or ("dynamic_library_name" in a[0] and not a[1]) for a in extra) and any("Some" in a[0] for a in extra)
            rep.check(okg, "function:link-name-guard", "pushed whenever a link name exists (only dynamic loading, which resolves the symbol by string, skips it): %s"
                      % "; ".join(("" if a[1] else "!") + a[0][-50:] for a in extra), fb.loc(c))
            # into the list that is interpolated right before `pub fn`
            lists = attrs_before(q, "pub", "fn")
            holder = [a for a in fb.ancestors(c) if a["k"] == "MCall" and a["name"] == "push"]
            okl = bool(lists) and bool(holder) and base_local(holder[0]["recv"]) == ints[lists[0]]["id"]
            rep.check(okl, "function:link-name-reaches-declaration", "pushed to `%s`, the list spliced before `pub fn`" % (lists[0] if lists else "?"), fb.loc(c))
            # dynamic loading uses the same symbol
            pf = [x for x in fb.calls(lambda n: n["k"] == "MCall" and n["name"] == "push_func")]
            if pf:
                sym = fb.canon(pf[0]["args"][1], 6)
                rep.check("Function::link_name" in sym and "unwrap_or" in sym, "function:dynamic-symbol", "dlsym name = link name or the identifier: %s" % sym[-90:], fb.loc(pf[0]))

    # ---- Var::codegen ------------------------------------------------------------------------------------------------
    vb = rep.need(prog.impl_fn("codegen::CodeGenerator", "ir::var::Var", "codegen"), "<Var as CodeGenerator>::codegen")
    decl = [q for q in quote_sites(vb) if q.has("pub", "static")]
    if rep.check(len(decl) == 1, "var:decl-site", "one `extern \"C\" { pub static .. }` emission (found %d)" % len(decl), vb.loc(vb.root)):
        q = decl[0]
        ints = q.interps()
        rep.check(q.has("extern", '"C"', "{") and q.has("pub", "static") and q.tokens[-2:] == [";", "}"], "var:decl-shape", " ".join(q.tokens), q.loc())
        calls = find_calls(vb, vb.root, "utils::names_will_be_identical_after_mangling")
        if rep.check(len(calls) == 1, "var:mangling-call", "one call of names_will_be_identical_after_mangling", vb.loc(vb.root)):
            c = calls[0]
            a0, a1, a2 = c["args"]
            name_lid = base_local(a0)
            idn = [k for k in ints if "ident" in k]
            ident_ids = local_ids(vb, ints[idn[0]]) if idn else set()
            rep.check(name_lid is not None and name_lid in ident_ids and "rust_ident" in (vb.canon(ints[idn[0]], 3) if idn else ""),
                      "var:compared-name-is-the-identifier", "the name compared with the symbol is the one that becomes `pub static #ident`", vb.loc(c))
            s1 = vb.canon(a1, 6)
            clos = [x for x in deep_walk(vb, a1) if x["k"] == "Closure"]
            inner = " ".join(vb.canon(cl["body"], 4) for cl in clos)
            rep.check("Var::mangled_name" in s1 and "Var::name" in (s1 + inner), "var:symbol-source", "the symbol is clang's mangled name, else the C name: %s" % (s1 + " / " + inner)[-120:], vb.loc(c))
            rep.check(val(vb, a2) == NONE, "var:no-calling-convention", "variables decorate like cdecl (None)", vb.loc(c))
            raw = [p for p in vb.calls(lambda n: callee_of(n).endswith("attributes::link_name")) if p.get("gargs") == "[false]"]
            if rep.check(len(raw) >= 1, "var:link-name-push", "link_name::<false>(..) is pushed (found %d)" % len(raw), vb.loc(vb.root)):
                mangled = [x for x in raw if "Var::link_name" not in vb.canon(x["args"][0], 6)]
                p = mangled[0] if mangled else raw[0]
                atoms = guard_atoms(vb, p)
                neg = any("names_will_be_identical_after_mangling" in a[0] and a[1] is False for a in atoms)
                same = base_local(p["args"][0]) == base_local(a1)
                rep.check(neg and same, "var:link-name-iff-not-identical", "pushed with that symbol exactly when the names will NOT be identical", vb.loc(p))
                lists = attrs_before(q, "pub", "static")
                holder = [a for a in vb.ancestors(p) if a["k"] == "MCall" and a["name"] == "push"]
                rep.check(bool(lists) and bool(holder) and base_local(holder[0]["recv"]) == ints[lists[0]]["id"], "var:link-name-reaches-declaration",
                          "pushed to `%s`, the list spliced before `pub static`" % (lists[0] if lists else "?"), vb.loc(p))
            # the callback override (Var::link_name) must reach the declaration as well
            ov_push = [p for p in raw if "Var::link_name" in vb.canon(p["args"][0], 6)]
            reads = [n for n in vb.calls(lambda n: (n.get("resolved") or n.get("callee") or "").endswith("var::Var::link_name"))]
            rep.check(bool(ov_push) or not reads, "var:link-name-override-emitted",
                      "Var::link_name() (ParseCallbacks::generated_link_name_override, e.g. --prefix-link-name) is read (%d site) but no #[link_name] is ever "
                      "pushed for it: when the override is Some, the closure that pushes the attribute is skipped and the `pub static` binds the "
                      "un-overridden identifier (Function::codegen emits the attribute for the same callback)" % len(reads), vb.loc(reads[0]) if reads else vb.loc(vb.root))

    # ---- variadic tail -----------------------------------------------------------------------------------------------------
    ib = rep.need(prog.fn("codegen::utils::fnsig_arguments_iter"), "fn fnsig_arguments_iter")
    dots = [q for q in quote_sites(ib) if q.tokens == ["..."]]
    if rep.check(len(dots) == 1, "variadic:tail-site", "one `...` emission (found %d)" % len(dots), ib.loc(ib.root)):
        atoms = guard_atoms(ib, dots[0].root)
        okv = len(atoms) == 1 and atoms[0][0] == "param:is_variadic" and atoms[0][1] is True
        pushed = any(a["k"] == "MCall" and a["name"] == "push" for a in ib.ancestors(dots[0].root))
        rep.check(okv and pushed, "variadic:tail-iff-flag", "`...` is appended iff the is_variadic argument holds: %s" % [(a[0], a[1]) for a in atoms], dots[0].loc())
        # appended after all mapped arguments: the push is a statement after the collect
        args_local = [a for a in ib.ancestors(dots[0].root) if a["k"] == "MCall" and a["name"] == "push"]
        rep.check(bool(args_local) and "Iterator::collect" in ib.canon(args_local[0]["recv"], 3), "variadic:tail-is-last", "pushed onto the collected argument list", dots[0].loc())
    ab = rep.need(prog.fn("codegen::utils::fnsig_arguments"), "fn fnsig_arguments")
    calls = find_calls(ab, ab.root, "utils::fnsig_arguments_iter")
    okc = False
    if calls:
        a1 = ab.canon(calls[0]["args"][1], 5)
        a2 = ab.canon(calls[0]["args"][2], 4)
        okc = len(calls) == 1 and "argument_types" in a1 and "param:sig" in a1 and a2 == "ir::function::FunctionSig::is_variadic(param:sig)"
    rep.check(okc, "variadic:flag-source", "fnsig_arguments passes sig.argument_types() and sig.is_variadic()", ab.loc(ab.root))
    iv = rep.need(prog.fn("ir::function::FunctionSig::is_variadic"), "fn FunctionSig::is_variadic")
    c = iv.canon(iv.root, 6)
    rep.check("FunctionSig::is_variadic" in c and c.startswith("(param:self.ir::function::FunctionSig::is_variadic &&"), "variadic:predicate",
              "is_variadic() is the stored clang flag (and a first fixed argument exists): %s" % c[-100:], iv.loc(iv.root))

    # ---- argument namers -----------------------------------------------------------------------------------------------
    sigs = {}
    for p in ("codegen::utils::fnsig_arguments_iter", "codegen::utils::fnsig_argument_identifiers", "codegen::helpers::ast_ty::arguments_from_signature"):
        b = rep.need(prog.fn(p), "fn " + p)
        sigs[short(p)] = (namer_signature(b), b)
    ref = sigs["fnsig_arguments_iter"][0]
    rep.check(ref is not None and ref[:4] == (0, 1, "pre", "arg"), "namers:reference", "declaration side names unnamed arguments arg1, arg2, ..: (start, step, order, prefix, named) = %s" % (ref,), sigs["fnsig_arguments_iter"][1].loc(sigs["fnsig_arguments_iter"][1].root))
    for name, (sg, b) in sigs.items():
        rep.check(sg == ref, "namers:agree:" + name, "%s: %s (declaration side: %s)" % (name, sg, ref), b.loc(b.root))
    ri = rep.need(prog.fn("ir::context::BindgenContext::rust_ident"), "fn BindgenContext::rust_ident")
    c = ri.canon(ri.root, 6)
    rep.check("rust_ident_raw" in c and "rust_mangle" in c, "namers:rust_ident-mangles", "rust_ident(x) = rust_ident_raw(rust_mangle(x)): %s" % c[-110:], ri.loc(ri.root))


# ------------------------------------------------------------------------------------------------
# R4.3 — lowering of signatures, pointers, globals, methods
# ------------------------------------------------------------------------------------------------
def arm_of(b, m, variant):
    for alt, guard, body, i in match_rows(b, m):
        a = alt[0] if isinstance(alt, tuple) and isinstance(alt[0], str) and alt[0] != "tuple" else alt
        if a == variant:
            return body
    return None


@RULES.rule("R4.3", "signature lowering: array decay, pointer constness, fn-pointer Option, unit/never return, static mut, self/this, constructor protocol", floor=34)
def r4_3(rep):
    """Necessary condition: each step is the Rust spelling of a rule of the C language (6.7.6.3p7 array parameters decay to
    pointers; a null function pointer is a valid value; `void` returns nothing) or of the C++ ABI (implicit `this` first).
    Breaks: `TypeKind::Array` parameters emitted as `[T; N]` pass N elements by value where C passes one pointer; `*mut` for
    `const T*` lets safe-looking Rust write through a pointer to read-only memory and changes the type of callbacks; emitting a
    bare `unsafe extern "C" fn()` for a nullable callback field makes a NULL from C instant UB; `-> ()` for a noreturn function is
    harmless but `!` for a returning one is UB."""
    prog = rep.prog
    # ---- ToPtr ---------------------------------------------------------------------------------------------------------
    tp = rep.need(prog.impl_fn("codegen::ToPtr", "syn::Type", "to_ptr"), "impl ToPtr for syn::Type")
    v = val(tp, tp.root)
    ok = v[0] == "if" and v[1] == "param:is_const" and v[2] == ("tok", "* const #self") and v[3] == ("tok", "* mut #self")
    rep.check(ok, "to_ptr", "to_ptr(is_const) = if is_const {*const T} else {*mut T}: %s" % show(v, 100), tp.loc(tp.root))

    # ---- Type::try_to_rust_ty: Pointer / Function arms -----------------------------------------------------------------
    tb = rep.need(prog.impl_fn("codegen::TryToRustTy", "ir::ty::Type", "try_to_rust_ty"), "impl TryToRustTy for Type")
    tm = rep.need(first_match(tb, lambda n: scrut_ty(tb, n).endswith("ty::TypeKind") and len(n["arms"]) > 10), "match *self.kind() in Type::try_to_rust_ty")
    pbody = rep.need(arm_of(tb, tm, "ir::ty::TypeKind::Pointer"), "TypeKind::Pointer arm")
    ptr_calls = [c for c in tb.calls(None, pbody) if callee_of(c).endswith("ToPtr>::to_ptr") or (c["k"] == "MCall" and c["name"] == "to_ptr")]
    if rep.check(len(ptr_calls) == 1, "pointer:to_ptr-site", "one to_ptr in the Pointer/Reference arm (found %d)" % len(ptr_calls), tb.loc(pbody)):
        c = ptr_calls[0]
        src = tb.canon(c["args"][0], 10)
        okc = re.fullmatch(r"ir::context::BindgenContext::resolve_type\(param:ctx, match\(param:self\.ir::ty::Type::kind\)~ir::ty::TypeKind::(Pointer|Reference)\.0\)\.ir::ty::Type::is_const", src) is not None
        rep.check(okc, "pointer:constness", "`*const` iff the pointee type (the arm's own inner id, unresolved aliases included) is const: %s" % src[-120:], tb.loc(c))
        recv = tb.canon(c["recv"], 9)
        rep.check("to_rust_ty_or_opaque" in recv and re.search(r"~ir::ty::TypeKind::(Pointer|Reference)\.0", recv) is not None, "pointer:pointee", "the pointee spelling is the inner type's (infallible) Rust type", tb.loc(c))
        # function pointee: no extra pointer level
        atoms = guard_atoms(tb, c)
        # ... decided on the CANONICAL pointee: `typedef void fn_t(int); fn_t *p;` is a function pointer as well
        canon_test = any((not pol) and "Type::is_function" in a and "canonical_type" in a for a, pol, _ in atoms)
        rep.check(has_atom(atoms, "Type::is_function", False) and canon_test, "pointer:function-pointee-no-extra-level",
                  "a pointer to a function is the function type itself (fn types are already pointers): to_ptr only under "
                  "!canonical_type().is_function()" if canon_test else
                  "`to_ptr` is not excluded for pointees whose CANONICAL type is a function: a pointer to a typedef of a function type gets an "
                  "extra level of indirection (`*mut Option<fn>`)", tb.loc(c))
    fbody = rep.need(arm_of(tb, tm, "ir::ty::TypeKind::Function"), "TypeKind::Function arm")
    fv = val(tb, fbody)
    fl = leaves(fv)
    okf = len(fl) == 1 and fl[0][0] == "ctor" and fl[0][1].endswith("::Ok") and fl[0][2][0][0] == "tok" and \
        fl[0][2][0][1].replace(" ", "").endswith("::option::Option<#ty>")
    tyq = [q for q in quote_sites(tb) if any(x is q.root for x in tb.walk(fbody))]
    srcty = tb.canon(tyq[0].interps()["ty"], 5) if tyq and "ty" in tyq[0].interps() else ""
    rep.check(okf and "FunctionSig as codegen::TryToRustTy>::try_to_rust_ty" in srcty and srcty.endswith("?"), "fnptr:option",
              "a function type is spelled Option<fn..> (NULL is a valid C value) from the signature's own (fallible) spelling: %s" % show(fv, 80), tb.loc(fbody))
    sb = rep.need(prog.impl_fn("codegen::TryToRustTy", "ir::function::FunctionSig", "try_to_rust_ty"), "impl TryToRustTy for FunctionSig")
    sq = [q for q in quote_sites(sb) if "fn" in q.tokens]
    if rep.check(len(sq) == 1, "fnptr:type-site", "one fn-pointer type emission", sb.loc(sb.root)):
        q = sq[0]
        ints = q.interps()
        shape = q.tokens == ["unsafe", "extern", "#abi", "fn", "(", "#(", "#arguments", ")", ",", "*", ")", "#ret"]
        srcs = {k: sb.canon(v_, 6) for k, v_ in ints.items()}
        oks = shape and srcs.get("arguments") == "codegen::utils::fnsig_arguments(param:ctx, param:self)" and \
            srcs.get("ret") == "codegen::utils::fnsig_return_ty(param:ctx, param:self)" and "FunctionSig::abi(param:self, param:ctx" in srcs.get("abi", "")
        rep.check(oks, "fnptr:type-shape", "`unsafe extern #abi fn(#(#arguments),*) #ret` with the signature's own arguments / return / abi: %s" % " ".join(q.tokens), q.loc())

    # ---- fnsig_argument_type -------------------------------------------------------------------------------------------
    ab = rep.need(prog.fn("codegen::utils::fnsig_argument_type"), "fn fnsig_argument_type")
    am = rep.need(first_match(ab, lambda n: scrut_ty(ab, n).endswith("ty::TypeKind")), "match on TypeKind in fnsig_argument_type")
    rep.check("canonical_type" in ab.canon(am["scrut"], 6), "argument:canonical-kind", "decay is decided on the canonical type (typedef'd arrays decay too)", ab.loc(am))
    arr = arm_of(ab, am, "ir::ty::TypeKind::Array")
    if rep.check(arr is not None, "argument:array-arm", "an arm for TypeKind::Array exists", ab.loc(am)):
        av = val(ab, arr)
        al = leaves(av)
        okd = bool(al) and all(x[0] == "call" and x[1].endswith("to_ptr") for x in al)
        rep.check(okd, "argument:array-decays", "an array parameter becomes a pointer (C11 6.7.6.3p7): %s" % show(av, 80), ab.loc(arr))
        cs = [c for c in ab.calls(None, arr) if c["k"] == "MCall" and c["name"] == "to_ptr"]
        if cs:
            src = ab.canon(cs[0]["args"][0], 7)
            rep.check(re.search(r"resolve_type\(param:ctx, match\(.*\)~ir::ty::TypeKind::Array\.0\)\.ir::ty::Type::is_const", src) is not None, "argument:array-constness",
                      "const iff the element type is const (or the array typedef is): %s" % src[-130:], ab.loc(cs[0]))
    for alt, guard, body, i in match_rows(ab, am):
        if alt == "_":
            r = val(ab, body)
            rep.check(r[0] == "call" and ("to_rust_ty_or_opaque" in r[1] or ("with_implicit_template_params" in r[1] and "to_rust_ty_or_opaque" in ab.canon(body, 5))), "argument:other", "every other kind uses the type's own spelling: %s" % show(r, 70), ab.loc(body))
    ib = prog.fn("codegen::utils::fnsig_arguments_iter")
    tyc = find_calls(ib, ib.root, "utils::fnsig_argument_type")
    rep.check(len(tyc) == 1, "argument:used-for-every-argument", "fnsig_arguments_iter spells each argument with fnsig_argument_type", ib.loc(ib.root))

    # ---- return type ---------------------------------------------------------------------------------------------------
    rb = rep.need(prog.fn("codegen::utils::fnsig_return_ty_internal"), "fn fnsig_return_ty_internal")
    never = [q for q in quote_sites(rb) if q.tokens == ["!"]]
    okn = len(never) == 1 and [(a[0], a[1]) for a in guard_atoms(rb, never[0].root)] in ([("ir::function::FunctionSig::is_divergent(param:sig)", True)], [("param:sig.ir::function::FunctionSig::is_divergent", True)])
    rep.check(okn, "return:never-iff-divergent", "`!` exactly under sig.is_divergent()", never[0].loc() if never else rb.loc(rb.root))
    rm = rep.need(first_match(rb, lambda n: scrut_ty(rb, n).endswith("ty::TypeKind")), "match on the return TypeKind")
    sc = rb.canon(rm["scrut"], 12)
    rep.check("FunctionSig::return_type(param:sig)" in rb.canon(rm["scrut"], 14) or "return_type" in sc, "return:kind-of-return-type", "the kind examined is the (alias-resolved) return type's", rb.loc(rm))
    for alt, guard, body, i in match_rows(rb, rm):
        r = val(rb, body)
        if alt == "ir::ty::TypeKind::Void":
            rep.check(guard is None and (r == ("tok", "( )") or r == ("tok", "()")), "return:void-is-unit", "void -> (): %s" % show(r), rb.loc(body))
        elif alt == "_":
            rep.check(r[0] == "call" and ("to_rust_ty_or_opaque" in r[1] or ("with_implicit_template_params" in r[1] and "to_rust_ty_or_opaque" in rb.canon(body, 5))) and "return_type" in rb.canon(body, 5), "return:other", "anything else: the return type's own spelling: %s" % show(r, 70), rb.loc(body))
        else:
            rep.bad("return:" + alt_str(alt), "unexpected special case for a return kind", rb.loc(body))
    r2 = rep.need(prog.fn("codegen::utils::fnsig_return_ty"), "fn fnsig_return_ty")
    v = val(r2, r2.root)
    okr = v[0] == "match" and "fnsig_return_ty_internal(param:ctx, param:sig)" in v[1]
    arrow = [x for x in leaves(v) if x[0] == "tok"]
    rep.check(okr and ("tok", "-> #ty") in arrow and ("tok", "") in arrow, "return:arrow", "unit -> nothing, otherwise `-> #ty`: %s" % show(v, 120), r2.loc(r2.root))
    dv = rep.need(prog.fn("ir::function::FunctionSig::is_divergent"), "fn FunctionSig::is_divergent")
    rep.check(dv.canon(dv.root, 4).endswith("FunctionSig::is_divergent"), "return:divergent-getter", "is_divergent() returns the stored flag", dv.loc(dv.root))

    # ---- globals -------------------------------------------------------------------------------------------------------
    vb = rep.need(prog.impl_fn("codegen::CodeGenerator", "ir::var::Var", "codegen"), "<Var as CodeGenerator>::codegen")
    decl = [q for q in quote_sites(vb) if q.has("pub", "static")]
    if rep.check(len(decl) == 1, "static:site", "one `pub static` emission", vb.loc(vb.root)):
        q = decl[0]
        ints = q.interps()
        # the interpolation right after `static` (whatever the local is called)
        ti = q.tokens.index("static") if "static" in q.tokens else -1
        MM = q.tokens[ti + 1][1:] if ti >= 0 and ti + 1 < len(q.tokens) and q.tokens[ti + 1].startswith("#") else "maybe_mut"
        mm = ints.get(MM)
        v = val(vb, mm) if mm is not None else ("?",)
        ok = v[0] == "if" and v[1] == "param:self.ir::var::Var::is_const" and v[2] == ("tok", "") and v[3] == ("tok", "mut")
        rep.check(ok and q.has("pub", "static", "#" + MM), "static:mut-iff-not-const", "`static` for const globals, `static mut` otherwise: %s" % show(v, 80), q.loc())
        ty = vb.canon(ints["ty"], 5) if "ty" in ints else ""
        rep.check(ty == "<T as codegen::ToRustTyOrOpaque>::to_rust_ty_or_opaque(param:self.ir::var::Var::ty, param:ctx, ())", "static:type", "the declared type is the variable's own type: %s" % ty[-80:], q.loc())
        atoms = guard_atoms(vb, q.root)
        rep.check(any("Var::val" in a[0] and a[1] is False for a in atoms), "static:only-without-value", "an extern static is emitted only for variables without a compile-time value", q.loc())

    # ---- methods -------------------------------------------------------------------------------------------------------
    mb = rep.need(next((b for p, b in prog.bodies.items() if p.endswith("::codegen_method") and "Method" in p), None), "fn Method::codegen_method")
    # the locals are identified by their position in the emitted tokens, not by name
    wq = [q for q in quote_sites(mb) if q.has("pub", "unsafe", "fn")]
    rep.need(wq, "wrapper emission `pub unsafe fn ..` in Method::codegen_method")
    q = wq[0]
    t = q.tokens
    k = [x for x in range(len(t) - 2) if t[x:x + 3] == ["pub", "unsafe", "fn"]][0]
    tail = t[k + 3:]
    shape = len(tail) == 13 and tail[0].startswith("#") and tail[1:3] == ["(", "#("] and tail[3].startswith("#") and tail[4:8] == [")", ",", "*", ")"] and \
        tail[8].startswith("#") and tail[9] == "{" and tail[10].startswith("#") and tail[11] == "}" or \
        (len(tail) == 12 and tail[0].startswith("#") and tail[1:3] == ["(", "#("] and tail[3].startswith("#") and tail[4:8] == [")", ",", "*", ")"] and
         tail[8].startswith("#") and tail[9] == "{" and tail[10].startswith("#") and tail[11] == "}")
    rep.check(len(wq) == 1 and shape, "method:wrapper-shape", "`pub unsafe fn #name ( #(#args),* ) #ret { #block }`: %s" % " ".join(t)[:120], q.loc())
    ints = q.interps()
    L = {}
    if shape:
        for role, tok in (("args", tail[3]), ("ret", tail[8]), ("block", tail[10])):
            if tok[1:] in ints:
                L[role] = ints[tok[1:]]["id"]
    # #block = wrap_unsafe_ops(quote!( #( #stmts );* ));  one of the statements is `#function_name ( #( #exprs ),* )`
    callq = None
    for qq_ in quote_sites(mb):
        tt = qq_.tokens
        if tt[:1] == ["#("] and len(tt) == 5 and tt[2:] == [")", ";", "*"] and tt[1][1:] in qq_.interps() and "block" in L and \
                qq_.interps()[tt[1][1:]]["id"] in local_ids(mb, ints[tail[10][1:]]):
            L["stmts"] = qq_.interps()[tt[1][1:]]["id"]
        if len(tt) == 8 and tt[0].startswith("#") and tt[1:3] == ["(", "#("] and tt[3].startswith("#") and tt[4:] == [")", ",", "*", ")"]:
            callq = qq_
            L["function_name"] = qq_.interps()[tt[0][1:]]["id"] if tt[0][1:] in qq_.interps() else None
            L["exprs"] = qq_.interps()[tt[3][1:]]["id"] if tt[3][1:] in qq_.interps() else None
    rep.check(all(L.get(r) is not None for r in ("args", "ret", "stmts", "function_name", "exprs")), "method:wrapper-parts",
              "parameter list, return type, statement list, callee and call arguments located in the emitted tokens: %s" % sorted(r for r in L if L[r] is not None), q.loc())
    srcs = {r: mb.canon({"k": "Local", "id": L[r], "name": r}, 5) for r in ("args", "ret", "exprs") if L.get(r) is not None}
    rep.check(srcs.get("args", "").startswith("codegen::utils::fnsig_arguments(param:ctx") and srcs.get("ret", "").startswith("codegen::utils::fnsig_return_ty(param:ctx") or
              ("local:" in srcs.get("args", "") and any(callee_of(c).endswith("utils::fnsig_arguments") for c in mb.calls())), "method:wrapper-signature-source",
              "the wrapper's parameters / return type start from the extern declaration's own (fnsig_arguments / fnsig_return_ty)", q.loc())
    first = {}
    for a in mb.walk():
        if a["k"] == "Assign" and strip(a["l"])["k"] == "Index":
            base = strip(strip(a["l"])["base"])
            idx = strip(strip(a["l"])["idx"])
            if base["k"] == "Local" and idx.get("v") == 0:
                first.setdefault(base["id"], []).append(a)
    # receiver in the wrapper's parameter list
    recv = first.get(L.get("args"), [])
    for a in recv:
        v = val(mb, a["r"])
        atoms = guard_atoms(mb, a)
        okrecv = v[0] == "if" and v[1] in ("param:self.ir::comp::Method::is_const", "ir::comp::Method::is_const(param:self)") and v[2] == ("tok", "& self") and v[3] == ("tok", "& mut self") and \
            has_atom(atoms, "Method::is_static", False) and has_atom(atoms, "Method::is_constructor", False)
        rep.check(okrecv, "method:receiver", "non-static, non-constructor methods take `&self` iff the C++ method is const, else `&mut self`: %s" % show(v, 90), mb.loc(a))
    rep.check(len(recv) == 1, "method:receiver-site", "the first parameter is replaced by the receiver (once)", mb.loc(mb.root))
    # the call passes self / the temporary first
    got = {}
    for a in first.get(L.get("exprs"), []):
        v = val(mb, a["r"])
        atoms = guard_atoms(mb, a)
        if v == ("tok", "self"):
            got["self"] = has_atom(atoms, "Method::is_constructor", False) and has_atom(atoms, "Method::is_static", False)
        elif v[0] == "tok" and v[1].replace(" ", "") == "__bindgen_tmp.as_mut_ptr()":
            got["tmp"] = has_atom(atoms, "Method::is_constructor", True)
    rep.check(got.get("self") is True, "method:this-argument", "the extern function receives `self` as `this` for non-static non-constructor methods", mb.loc(mb.root))
    rep.check(got.get("tmp") is True, "ctor:this-is-uninit-storage", "constructors receive `__bindgen_tmp.as_mut_ptr()` as `this`", mb.loc(mb.root))
    ex_src = mb.canon({"k": "Local", "id": L["exprs"], "name": "exprs"}, 4) if L.get("exprs") is not None else ""
    rep.check("arguments_from_signature" in ex_src or any(callee_of(c).endswith("ast_ty::arguments_from_signature") for c in mb.calls()), "method:call-arguments-source",
              "the remaining call arguments are the signature's argument names (arguments_from_signature)", mb.loc(mb.root))
    # constructor protocol: decl, call, assume_init in that order; returns Self; drops the `this` parameter
    kinds = []
    for c in mb.calls(lambda n: n["k"] == "MCall" and n["name"] == "push" and strip(n["recv"]).get("k") == "Local" and strip(n["recv"])["id"] == L.get("stmts")):
        v = val(mb, c["args"][0])
        atoms = guard_atoms(mb, c)
        tt = v[1].replace(" ", "") if v[0] == "tok" else ""
        if "MaybeUninit::uninit()" in tt and tt.startswith("letmut__bindgen_tmp="):
            kinds.append(("decl", has_atom(atoms, "Method::is_constructor", True)))
        elif callq is not None and v == ("tok", " ".join(callq.tokens)):
            kinds.append(("call", not any("is_constructor" in a[0] for a in atoms)))
        elif tt == "__bindgen_tmp.assume_init()":
            kinds.append(("init", has_atom(atoms, "Method::is_constructor", True)))
        else:
            kinds.append(("other:" + tt[:30], True))
    rep.check(kinds == [("decl", True), ("call", True), ("init", True)], "ctor:protocol",
              "statements: MaybeUninit::uninit() [ctor only]; the call [always]; assume_init() [ctor only], in this order: %s" % kinds, mb.loc(mb.root))
    removes = [c for c in mb.calls(lambda n: n["k"] == "MCall" and n["name"] == "remove" and strip(n["recv"]).get("k") == "Local" and strip(n["recv"])["id"] == L.get("args"))]
    okrm = len(removes) == 1 and strip(removes[0]["args"][0]).get("v") == 0 and has_atom(guard_atoms(mb, removes[0]), "Method::is_constructor", True)
    rets = [n for n in mb.walk() if n["k"] == "Assign" and strip(n["l"]).get("k") == "Local" and strip(n["l"])["id"] == L.get("ret")]
    okret = len(rets) == 1 and val(mb, rets[0]["r"]) == ("tok", "-> Self") and has_atom(guard_atoms(mb, rets[0]), "Method::is_constructor", True)
    rep.check(okrm and okret, "ctor:signature", "constructors drop the `this` parameter and return Self", mb.loc(mb.root))
    # the called function is the extern declaration generated for the same Function item (overload suffix included)
    okown = False
    if L.get("function_name") is not None:
        d = mb.local_def.get(L["function_name"])
        ids = local_ids(mb, d[0][1]["init"]) if d and d[0][0] == "let" else set()
        base_name = any("ItemCanonicalName>::canonical_name(ir::context::BindgenContext::resolve_item(param:ctx, param:self.ir::comp::Method::signature)" in
                        mb.canon({"k": "Local", "id": x, "name": "?"}, 9) for x in ids)
        suffix = False
        for c in mb.calls(lambda n: n["k"] == "MCall" and n["name"] == "write_fmt"):
            if base_local(c["recv"]) in ids and any(y["k"] == "Local" and "Function as codegen::CodeGenerator>::codegen(" in mb.canon(y, 5) for y in deep_walk(mb, c["args"][0])):
                suffix = True
        okown = base_name and suffix and "rust_ident" in mb.canon(d[0][1]["init"], 3)
    rep.check(okown, "method:calls-its-own-declaration", "the wrapper calls rust_ident(canonical_name(function item) + overload number returned by Function::codegen)", mb.loc(mb.root))

    # ---- FunctionSig::from_ty: implicit this ---------------------------------------------------------------------------
    ft = rep.need(prog.fn("ir::function::FunctionSig::from_ty"), "fn FunctionSig::from_ty")
    ins = [c for c in ft.calls(lambda n: n["k"] == "MCall" and n["name"] == "insert" and "Vec<(std::option::Option<std::string::String>, ir::context::TypeId)>" in (ft.ty(strip(n["recv"])) or ""))]
    okthis = bool(ins)
    det = []
    for c in ins:
        idx = strip(c["args"][0]).get("v")
        v = val(ft, c["args"][1])
        nm = [n["v"] for n in ft.walk(c["args"][1]) if n["k"] == "Lit" and isinstance(n.get("v"), str)]
        okthis = okthis and idx == 0 and nm == ["this"]
        det.append((idx, nm))
    rep.check(okthis and len(ins) == 2, "this:inserted-first", "methods get a leading `this` argument (typed and void* flavours): %s" % det, ft.loc(ins[0]) if ins else ft.loc(ft.root))
    typed = [c for c in ins if "TypeKind::Pointer" in ft.canon(c["args"][1], 8) and "void" not in ft.canon(c["args"][1], 8).lower()] if ins else []
    if typed:
        atoms = guard_atoms(ft, typed[0])
        rep.check(has_atom(atoms, "method_is_static", False) or any("is_static" in a[0] and not a[1] for a in atoms), "this:not-for-static", "no `this` for static methods: %s"
                  % "; ".join(("" if a[1] else "!") + a[0][-40:] for a in atoms[-3:]), ft.loc(typed[0]))
    cw = find_calls(ft, ft.root, "BindgenContext::build_const_wrapper")
    okcw = len(cw) == 1 and bool(typed)
    if okcw:
        base = {(a[0], a[1]) for a in guard_atoms(ft, typed[0])}
        extra = [(a[0], a[1]) for a in guard_atoms(ft, cw[0]) if (a[0], a[1]) not in base]
        okcw = any("method_is_const" in s_ and p_ for s_, p_ in extra) and all(p_ and ("method_is_const" in s_ or "CXCursor_CXXMethod" in s_) for s_, p_ in extra)
    rep.check(okcw, "this:const-method-const-this", "`this` points to the const-qualified class exactly for const methods", ft.loc(cw[0]) if cw else ft.loc(ft.root))


# R4.4 — added by the main session: an independently seeded C04-breaking change dropped the ABI name from the merge key of
# `--merge-extern-blocks` (functions of an `extern "win64"` block were folded into the `extern "C"` block).  The rule is
# C18's R18.1 (shared implementation): a foreign function keeps its calling convention when blocks are merged.
def _r4_4(rep):
    import c18
    c18.r18_1(rep)


RULES.rule("R4.4", "merging extern blocks never moves a function under another ABI (merge key compares abi, attrs, unsafety)", floor=3)(_r4_4)


@RULES.rule("R4.5", "globals keep their mutability: const-ness is read through typedefs; only constants are emitted by value", floor=2)
def r4_5(rep):
    """`typedef const int cint; extern cint x;` must be `pub static x` (repaired by a fix: commit: the canonical type is asked too).
    `int counter = 5;` is a mutable global with a symbol: emitting it as `pub const counter = 5` (what happens today: the initialiser
    is evaluated for every integer variable and a value always wins in Var::codegen) loses both the symbol and the mutability."""
    prog = rep.prog
    vp = rep.need(prog.impl_fn("parse::ClangSubItemParser", "ir::var::Var", "parse"), "<Var as ClangSubItemParser>::parse")
    lets = [n for n in vp.walk() if n["k"] == "Let" and n.get("init") is not None and n["pat"].get("k") == "Bind" and
            (vp.prog.types[n["pat"]["t"]] if n["pat"].get("t") is not None else "") == "bool" and
            any(x["k"] == "MCall" and x.get("name") == "is_const" for x in vp.walk(n["init"]))]
    if rep.check(len(lets) == 1, "var:is_const-definition", "one definition of is_const in Var::parse", vp.loc(vp.root)):
        calls = [(c.get("callee") or "") + "@" + vp.canon(c["recv"], 3) for c in vp.calls(lambda n: n["k"] == "MCall" and n["name"] == "is_const", lets[0]["init"])]
        rep.check(any("canonical_type" in c for c in calls), "var:constness-through-typedef",
                  "is_const also asks the canonical type (a qualifier hidden behind a typedef) (found %s)" % calls, vp.loc(lets[0]))
    vc = rep.need(prog.impl_fn("codegen::CodeGenerator", "ir::var::Var", "codegen"), "<Var as CodeGenerator>::codegen")
    consts = [q for q in quote_sites(vc) if q.has("pub", "const")]
    rep.need(consts, "`pub const` emission in Var::codegen")
    # by-value emission requires constness: either codegen tests is_const, or parse only stores values of const variables
    guarded_cg = all(any("Var::is_const" in a and p for a, p, _ in guard_atoms(vc, q.root)) for q in consts)
    news = [c for c in vp.calls(lambda n: n["k"] == "Call" and (n.get("callee") or "").endswith("var::Var::new"))]
    guarded_parse = False
    for c in news:
        if len(c["args"]) >= 6 and "is_const" in vp.canon(c["args"][5], 3):
            val = strip(c["args"][4])
            init = vp.local_init(val["id"]) if val.get("k") == "Local" else None
            if init is not None and any("is_const" in a and p for x in vp.walk(init) if x["k"] in ("Call", "MCall") for a, p, _ in guard_atoms(vp, x)):
                guarded_parse = True
    rep.check(guarded_cg or guarded_parse, "var:mutable-global-emitted-as-const@Var::codegen",
              "a variable is emitted as `pub const NAME = value` whenever its initialiser could be evaluated, whether or not it is const: "
              "`int counter = 5;` loses its symbol and mutability", consts[0].loc())


@RULES.rule("R4.6", "a function type has exactly the parameters its clang type reports (names may come from the cursor, never extra parameters)", floor=1)
def r4_6(rep):
    """`int (*get(int a, int b))(char);`: while the returned function-pointer type `int(char)` is built, the cursor at hand is still the
    declaration of `get`; `args_from_ty_and_cursor` pairs cursor arguments with type arguments and keeps going while EITHER side has
    one, so the returned type becomes `fn(a: c_char, b: c_int) -> c_int` — an extra parameter, not call-compatible."""
    prog = rep.prog
    b = rep.need(prog.fn("ir::function::args_from_ty_and_cursor"), "ir::function::args_from_ty_and_cursor")
    tws = [c for c in b.calls(lambda n: n["k"] == "MCall" and n["name"] in ("take_while", "zip", "zip_longest"))]
    rep.need(tws, "the pairing of cursor arguments with type arguments")
    either = False
    for c in b.calls(lambda n: n["k"] == "MCall" and n["name"] == "take_while"):
        clo = strip(c["args"][0])
        body = strip(clo.get("body", {}))
        if body.get("k") == "Binary" and body["op"] == "||" and all("is_some" in b.canon(x, 3) for x in (body["l"], body["r"])):
            either = True
    longest = any(c["name"] == "zip_longest" for c in tws)
    # the type side is padded with None, i.e. cursor arguments beyond the type's own list are accepted
    padded_type = any(c["name"] == "zip" and "repeat" in b.canon(c["args"][0], 8) for c in tws)
    rep.check(not ((either and padded_type) or longest), "fnsig-args:cursor-args-beyond-type-args@args_from_ty_and_cursor",
              "the pairing continues while either the cursor or the type still has an argument, so cursor arguments beyond the type's own "
              "parameter list become parameters (`int (*get(int a, int b))(char)` returns `fn(a: c_char, b: c_int)`)", b.loc(tws[0]))


# ---------------------------------------------------------------------------------------------------------
# R4.7  answer caches: what is remembered depends only on what it is remembered under
# ---------------------------------------------------------------------------------------------------------
MEMO_WRITE = {"set", "replace", "get_or_init", "get_or_insert_with", "or_insert_with", "or_insert", "insert", "get_or_insert"}
MEMO_READ = {"get", "get_or_init", "take", "borrow", "get_or_insert_with", "or_insert_with"}
MEMO_TYPES = ("std::cell::Cell<", "std::cell::OnceCell<", "std::cell::RefCell<", "std::sync::OnceLock<", "std::sync::Mutex<", "std::sync::RwLock<")


def _self_field_root(b, e):
    """(field name, ADT) if e is `self.<field>` possibly behind borrow()/borrow_mut()/entry chains, else None."""
    e = strip(e)
    for _ in range(8):
        if e.get("k") == "MCall" and e.get("name") in ("borrow", "borrow_mut", "entry", "or_default", "lock", "unwrap", "get_mut", "as_ref", "as_mut"):
            e = strip(e["recv"])
            continue
        break
    if e.get("k") == "Field":
        base = strip(e["base"])
        d = b.local_def.get(base.get("id")) if base.get("k") == "Local" else None
        if d and d[0][0] == "param" and d[0][1] == 0 and (b.ty(e) or "").replace("&", "").startswith(MEMO_TYPES):
            return (e["f"], e.get("adt"))
    return None


def _param_deps(b, e, seen=None, depth=0):
    """indices of the function's parameters the value of e depends on (through immutable lets, closure bodies, match scrutinees)."""
    seen = set() if seen is None else seen
    out = set()
    if depth > 12 or not isinstance(e, dict):
        return out
    for x in b.walk(e):
        if x["k"] != "Local" or x["id"] in seen:
            continue
        seen.add(x["id"])
        d = b.local_def.get(x["id"])
        if not d:
            continue
        o = d[0]
        if o[0] == "param":
            out.add(o[1])
        elif o[0] == "let" and o[1].get("init") is not None:
            out |= _param_deps(b, o[1]["init"], seen, depth + 1)
        elif o[0] == "letcond":
            out |= _param_deps(b, o[1]["init"], seen, depth + 1)
        elif o[0] == "arm":
            out |= _param_deps(b, o[1]["scrut"], seen, depth + 1)
        elif o[0] == "for":
            out |= _param_deps(b, o[1].get("iter"), seen, depth + 1)
    return out


@RULES.rule("R4.7", "answer caches in the IR remember a value only under everything it was computed from", floor=3)
def r4_7(rep):
    """`FunctionSig::abi(ctx, name)` answers per NAME (an `--override-abi` regex is matched against it) while several
    declarations can share one signature (`typedef long fold_t(long); fold_t fold_a; fold_t fold_b;`).  Remembering the answer in
    the signature (`effective_abi: Cell<Option<ClangAbi>>`) makes the first name asked decide for all: `fold_b` is declared
    `extern "C"` although `--override-abi fold_b=win64` was given.  Rule: where a method both reads and fills an interior-mutable
    field of `self`, the stored value may depend only on `self`, the context, and the key it is stored under."""
    prog = rep.prog
    n = 0
    for p, b in sorted(prog.bodies.items()):
        if not (p.startswith(("ir::", "<ir::", "codegen::", "<codegen::", "regex_set::")) or "ir::" in p.split(" as ")[0]):
            continue
        if b.fact.get("kind") == "Closure":
            continue
        writes, reads = {}, {}
        for c in b.nodes:
            if c["k"] != "MCall":
                continue
            root = _self_field_root(b, c["recv"])
            if root is None:
                continue
            if c["name"] in MEMO_WRITE:
                writes.setdefault(root, []).append(c)
            if c["name"] in MEMO_READ:
                reads.setdefault(root, []).append(c)
        for root, ws in writes.items():
            if root not in reads:
                continue     # written here, consulted elsewhere: a flag or counter, not an answer cache of this method
            # does the remembered value reach the method's result?  (counters like next_child_local_id do; that is fine, they have no key)
            n += 1
            ctx_params = {i for i, prm in enumerate(b.params) if "BindgenContext" in (prog.types[prm["t"]] if prm.get("t") is not None else "")}
            bad = set()
            for w in ws:
                val = w["args"][-1] if w["args"] else None
                deps = _param_deps(b, val) if val is not None else set()
                for pol, kind, g in b.guards(w):
                    if kind == "cond":
                        deps |= _param_deps(b, g)
                    elif kind == "arm":
                        deps |= _param_deps(b, g[0]["scrut"])
                # everything the value is filed under: keys of entry()/insert() on the way to the field
                keys = set()
                e = strip(w["recv"])
                for _ in range(8):
                    if e.get("k") == "MCall":
                        if e.get("name") in ("entry", "get", "get_mut", "contains_key"):
                            for a in e["args"]:
                                keys |= _param_deps(b, a)
                        e = strip(e["recv"])
                    else:
                        break
                if w["name"] == "insert" and len(w["args"]) == 2:
                    keys |= _param_deps(b, w["args"][0])
                bad |= deps - {0} - ctx_params - keys
            names = sorted(str((b.params[i] or {}).get("name", i)) for i in bad if i < len(b.params))
            rep.check(not bad, "memo:%s.%s@%s" % ((root[1] or "?").split("::")[-1], root[0], short(p)),
                      "the remembered value depends on self / ctx / its key only" if not bad else
                      "the value remembered in `%s` depends on parameter(s) %s that it is not filed under: the first caller's answer is "
                      "served to every later caller" % (root[0], names), b.loc(ws[0]))
    rep.need(n >= 3, "methods that fill and read an interior-mutable field of self (canonical_name, local_id, path_for_allowlisting, ..)")


# ---------------------------------------------------------------------------------------------------------
# R4.8  which C++ ABI family the target uses (decides which mangled destructor / constructor variant is bound)
# ---------------------------------------------------------------------------------------------------------
@RULES.rule("R4.8", "the Microsoft C++ ABI is assumed exactly for MSVC-environment triples", floor=2)
def r4_8(rep):
    """`cursor_mangling` keeps only the complete-object destructor (`D1Ev`) under the Itanium ABI and takes libclang's single
    mangling under the Microsoft one.  Classifying `x86_64-pc-windows-gnu` (MinGW: Itanium ABI, OS component `windows`) as
    Microsoft binds a virtual destructor to `_ZN5ShapeD0Ev`, the deleting destructor, which also frees the object."""
    prog = rep.prog
    tb = rep.need(prog.fn("clang::TargetInfo::new"), "clang::TargetInfo::new")
    ok_markers = set(ORACLE["microsoft_cxx_abi"]["triple_markers"])
    ms = [n for n in tb.nodes if n["k"] == "Path" and str(n.get("def", "")).endswith("ABIKind::Microsoft")]
    it = [n for n in tb.nodes if n["k"] == "Path" and str(n.get("def", "")).endswith("ABIKind::GenericItanium")]
    rep.need(ms and it, "both ABIKind variants are chosen in TargetInfo::new")
    for n in ms:
        # conditions on the triple text (assertions on the pointer width etc. are not about the ABI)
        conds = [(pol, g) for pol, kind, g in tb.guards(n) if kind == "cond" and
                 any(x["k"] == "Lit" and x.get("lk") == "str" or (x["k"] == "MCall" and (tb.ty(x["recv"]) or "").replace("&", "") in ("str", "std::string::String"))
                     for x in tb.walk(g))]
        lits, shapes_ok = set(), bool(conds)
        for pol, g in conds:
            todo = [strip(g)]
            while todo:
                e = todo.pop()
                if e.get("k") == "Binary" and e["op"] in ("&&", "||"):
                    todo += [strip(e["l"]), strip(e["r"])]
                    continue
                if e.get("k") == "MCall" and e.get("name") in ("contains", "ends_with") and pol:
                    a = strip(e["args"][0])
                    if a.get("k") == "Lit" and isinstance(a.get("v"), str):
                        lits.add(a["v"].strip("-"))
                        continue
                shapes_ok = False
        ok = shapes_ok and bool(lits) and lits <= ok_markers
        rep.check(ok, "microsoft-abi-iff-msvc-environment", "ABIKind::Microsoft is chosen when the triple contains %s" % sorted(lits) if ok else
                  "ABIKind::Microsoft is chosen under `%s`: only the MSVC environment (%s) uses the Microsoft C++ ABI; `*-windows-gnu` is Itanium"
                  % (" / ".join(tb.canon(g, 3)[:70] for _, g in conds), sorted(ok_markers)), tb.loc(n))
    for n in it:
        neg = [g for pol, kind, g in tb.guards(n) if kind == "cond" and not pol]
        rep.check(bool(neg), "itanium-abi-otherwise", "ABIKind::GenericItanium is the alternative of that test", tb.loc(n))


@RULES.rule("R4.9", "an array type is const when its innermost element type is (arrays of arrays)", floor=1)
def r4_9(rep):
    """In C the qualifier of `const int n[2][3][4]` belongs to `int`; clang reports neither the outer array types nor `const int[4]`'s
    enclosing `[3]` level as const-qualified.  `Type::from_clang_ty` derives an array's const-ness from its element type; looking
    one level down only makes `void k3(const int n[2][3][4])` a `*mut [[c_int; 4]; 3]` parameter (and a `const int grid[2][3]`
    global `static mut`), while `const int n[4]` is right."""
    prog = rep.prog
    b = rep.need(prog.fn("ir::ty::Type::from_clang_ty"), "Type::from_clang_ty")
    news = [c for c in b.calls(lambda n: n["k"] == "Call" and callee_of(n) == "ir::ty::Type::new" and len(n["args"]) == 4)]
    rep.need(news, "Type::new(name, layout, kind, is_const) in Type::from_clang_ty")
    n_sites = 0
    for c in news:
        e = c["args"][3]
        exprs, todo, seen = [], [e], set()
        while todo:
            x = todo.pop()
            exprs.append(x)
            for y in b.walk(x):
                if y["k"] == "Local" and y["id"] not in seen:
                    seen.add(y["id"])
                    d = b.local_def.get(y["id"])
                    if d and d[0][0] == "let" and d[0][1].get("init") is not None:
                        todo.append(d[0][1]["init"])
                        # a `let mut flag = false; while .. { flag = true }` local: its assignments belong to the value too
                        todo += [a["r"] for a in b.nodes if a["k"] == "Assign" and strip(a["l"]).get("k") == "Local" and strip(a["l"])["id"] == y["id"]]
        reads = [y for x in exprs for y in b.walk(x) if y["k"] == "MCall" and y.get("name") == "elem_type"]
        # assignments made inside a loop are found through the loop as well
        loops = [l for l in b.nodes if l["k"] in ("While", "Loop", "For") and any(y["k"] == "Local" and y["id"] in seen for y in b.walk(l))]
        for l in loops:
            reads += [y for y in b.walk(l) if y["k"] == "MCall" and y.get("name") == "elem_type"]
        if not reads:
            continue
        n_sites += 1
        nested = any(any(a["k"] in ("While", "Loop", "For") for a in b.ancestors(r)) for r in reads) or \
            any(callee_of(y).endswith("canonical_type") or y.get("name") in ("innermost_elem_type", "array_elem_type_recursive")
                for x in exprs for y in b.walk(x) if y["k"] in ("MCall", "Call"))
        rep.check(nested, "array-constness:innermost-element", "the element chain is followed down to the innermost element type" if nested else
                  "only the direct element type is asked for const-ness: `const int n[2][3][4]` is not const", b.loc(reads[0]))
    rep.need(n_sites >= 1, "an array const-ness computation reading elem_type() in Type::from_clang_ty")


@RULES.rule("R4.10", "only declarations that have a symbol become `extern` items: functions AND variables look at the linkage", floor=2)
def r4_10(rep):
    """`Function::parse` drops functions whose linkage is neither external nor (for the wrapper feature) internal.  `Var::parse` has
    no such test: `static int counter;` (internal linkage, no symbol visible to the linker) is emitted as
    `extern "C" { pub static mut counter: c_int; }`, which fails at link time as soon as it is used."""
    prog = rep.prog
    fp = rep.need(prog.impl_fn("parse::ClangSubItemParser", "ir::function::Function", "parse"), "<Function as ClangSubItemParser>::parse")
    vp = rep.need(prog.impl_fn("parse::ClangSubItemParser", "ir::var::Var", "parse"), "<Var as ClangSubItemParser>::parse")

    def linkage_filter(b):
        """a `return Err(ParseError::Continue)` (or a skipped construction) that depends on `cursor.linkage()`"""
        for r in b.nodes:
            if r["k"] != "Ret":
                continue
            for pol, kind, g in b.guards(r, nested=True):
                src = ""
                if kind == "cond":
                    src = b.canon(g, 6)
                elif kind in ("arm", "notarm", "notall"):
                    m_ = g[0] if kind != "notall" else None
                    src = b.canon(m_["scrut"], 6) if m_ is not None else ""
                if "clang::Cursor::linkage(" in src:
                    return True
        return False
    rep.check(linkage_filter(fp), "linkage-filter@Function::parse", "functions without a linkable symbol are dropped", fp.loc(fp.root))
    ok = linkage_filter(vp)
    rep.check(ok, "linkage-filter@Var::parse", "variables without a linkable symbol are dropped" if ok else
              "Var::parse never rejects a declaration because of its linkage: a `static` variable without a constant value becomes an `extern` static "
              "that no object file defines", vp.loc(vp.root))


@RULES.rule("R4.11", "thread-local variables are not declared as ordinary statics", floor=1)
def r4_11(rep):
    """`extern __thread int tls;` (or `_Thread_local` / `thread_local`) lives in the thread's TLS block and is reached through the
    thread pointer; Rust's `extern { static mut tls: c_int; }` reads an ordinary data symbol.  Stable Rust cannot name a foreign
    thread-local, so such a variable must get no binding; `Var::parse` has to look at the cursor's TLS kind."""
    prog = rep.prog
    vp = rep.need(prog.impl_fn("parse::ClangSubItemParser", "ir::var::Var", "parse"), "<Var as ClangSubItemParser>::parse")
    reach = prog.reachable([vp.path])
    uses = [p for p in reach if prog.fn(p) is not None and any(c["k"] == "Call" and "clang_getCursorTLSKind" in str(c.get("callee") or "")
                                                             for c in prog.fn(p).nodes)]
    direct = any(c["k"] in ("Call", "MCall") and ("TLSKind" in str(c.get("callee") or c.get("resolved") or "") or c.get("name") in ("tls_kind", "is_thread_local"))
                 for c in vp.nodes)
    ok = bool(uses) or direct
    rep.check(ok, "thread-local-rejected@Var::parse", "Var::parse consults the TLS kind of the declaration" if ok else
              "nothing on the way from Var::parse asks libclang whether the variable is thread-local: it is bound like an ordinary global", vp.loc(vp.root))


@RULES.rule("R4.12", "well-known typedef names are replaced by a Rust primitive only when C guarantees the width (shared with C02 R2.8)", floor=13)
def r4_12(rep):
    """`utils::type_from_named` replaces a typedef by its name alone.  `int_fast32_t` is 8 bytes on glibc x86-64 and 4 on Darwin:
    mapping it (or any `least` / `fast` / `max` name) to a fixed-width Rust integer makes `int_fast32_t half(int_fast32_t)` a function
    of `i32` — the caller passes and reads back the wrong width (seeded change).  Same rule instance as R2.8 (oracle of names whose
    width the C standard fixes)."""
    import c02
    c02.r2_8(rep)


ANCHORED_STR_TESTS = {"ends_with", "strip_suffix"}
UNANCHORED_STR_TESTS = {"contains", "find", "rfind", "split_once", "rsplit_once", "matches", "rmatches", "split", "rsplit", "starts_with", "match_indices"}


@RULES.rule("R4.13", "the destructor symbol bound is the complete-object destructor: the `D1` test is anchored at the end of the mangling", floor=2)
def r4_13(rep):
    """libclang lists several Itanium manglings for a destructor (D0 deleting, D1 complete, D2 base).  `cursor_mangling` keeps the one
    that ends in `D1Ev`.  Class and namespace names are part of the mangling verbatim, so only a test anchored at the END can tell the
    marker from a name: with "contains D1 .. ends with Ev" the deleting destructor `_ZN7SSD1306D0Ev` of `class SSD1306` is taken, and
    dropping the Rust value also calls `operator delete` on it (seeded change).  Every string test in `cursor_mangling` (and the
    helpers it calls) whose literal contains `D1` must be `ends_with` / `strip_suffix`."""
    prog = rep.prog
    b = rep.need(prog.fn("ir::function::cursor_mangling"), "ir::function::cursor_mangling")
    todo, seen = [b], set()
    n = 0
    while todo:
        x = todo.pop()
        if x.path in seen:
            continue
        seen.add(x.path)
        for c in x.calls():
            cal = c.get("resolved") or c.get("callee") or ""
            if cal.startswith("ir::function::") and cal in prog.bodies and len(seen) < 6:
                todo.append(prog.bodies[cal])
            if c["k"] != "MCall" or c["name"] not in ANCHORED_STR_TESTS | UNANCHORED_STR_TESTS:
                continue
            lits = [l.get("v") for a in c.get("args", []) for l in x.walk(a) if l["k"] == "Lit" and isinstance(l.get("v"), str)]
            if not any("D1" in l or "D0" in l or "D2" in l for l in lits):
                continue
            n += 1
            ok = c["name"] in ANCHORED_STR_TESTS
            rep.check(ok, "destructor-marker-anchored@%s" % x.path.split("::")[-1], "`%s(%r)`" % (c["name"], lits[0]) if ok else
                      "`%s(%r)` finds the marker anywhere in the mangled name; names are mangled verbatim (`SSD1306`, `MD1`), so the "
                      "deleting destructor D0 of such a class passes the test and is bound instead of D1" % (c["name"], lits[0]), x.loc(c))
    rep.need(n >= 1, "string tests for the D1 marker in cursor_mangling")


@RULES.rule("R4.14", "the pointer a decayed array parameter becomes is `*const` when the element type is const by any spelling", floor=1)
def r4_14(rep):
    """`void g(cint a[4])` with `typedef const int cint;` is `void g(const int *a)`.  `Type::is_const` only knows the qualifiers
    written on that very type; a qualifier that arrives through a typedef sits on the canonical type.  The `to_ptr(..)` of the array arm
    of the argument conversion has to ask both (before the fix: `fn g(a: *mut cint)`)."""
    prog = rep.prog
    n = 0
    for p, b in sorted(prog.bodies.items()):
        if not p.startswith("codegen::"):
            continue
        for c in b.calls(lambda x: x["k"] == "MCall" and x["name"] == "to_ptr"):
            arms = [g for pol, kind, g in b.guards(c) if kind == "arm"]
            if not any(any(v.endswith("TypeKind::Array") for v in pat_variants(g[0]["arms"][g[1]]["pat"])) for g in arms):
                continue
            n += 1
            src = b.canon(c["args"][0], 10)
            for x in b.walk(c["args"][0]):
                if x["k"] == "Local" and b.local_init(x["id"]) is not None:
                    src += " " + b.canon(b.local_init(x["id"]), 10)
            parts = [x.strip(" ()") for x in src.split(" || ")]
            elem = "TypeKind::Array.0"
            direct = any(x.startswith("ir::context::BindgenContext::resolve_type(") and elem in x and x.endswith("Type::is_const") for x in parts)
            canon = any(x.startswith(("ir::ty::Type::canonical_type(ir::context::BindgenContext::resolve_type(",
                                      "ir::ty::Type::safe_canonical_type(ir::context::BindgenContext::resolve_type("))
                        and elem in x and x.endswith("Type::is_const") for x in parts)
            rep.check(direct and canon, "array-param-constness@%s" % p.split("::")[-1],
                      "asks the element type and its canonical type" if direct and canon else
                      "the const-ness of the decayed pointer is read from the element type as spelled only: a typedef of a const type "
                      "(`typedef const int cint; void g(cint a[4]);`) gives `*mut`", b.loc(c))
    rep.need(n >= 1, "to_ptr(..) in an array arm of the argument conversion")


@RULES.rule("R4.15", "scalar parameters, returns and globals are spelled through the primitive-type tables (shared with C02 R2.1)", floor=200)
def r4_15(rep):
    """Every scalar in a signature is spelled by `int_kind_rust_type` / `float_kind_rust_type` / the size->integer tables.  A row of
    the wrong width passes the wrong register half or the wrong SSE width: `(8, false) => c_float` for an 8-byte `long double`
    under `--no-convert-floats` makes `scale(1.25, 4)` return 0.0 (seeded change).  Same rule instance as R2.1."""
    import c02

    # R2.1 minus its signedness section: a sign recorded wrongly changes how a VALUE is read (C02 / C05), not whether the same
    # bits arrive in the callee
    from engine import KeyFilter
    c02.r2_1(KeyFilter(rep, lambda k: not k.startswith("is_signed:")))


@RULES.rule("R4.16", "a pointer whose spelled pointee lost the `const` of its canonical pointee points to the canonical pointee, whatever the pointee is", floor=8)
def r4_16(rep):
    """libclang drops the pointee's qualifier from the spelled type of some pointers (#2244, and every `typedef const T cT; cT *p`).
    codegen picks `*const` / `*mut` from the pointee item alone, so the parser continues with the canonical pointee whenever the two
    disagree on `const`.  Decided on the reach condition of that replacement: with `spelled != canonical` and `const-ness differs`
    both true it is taken for every value of every other test (a further conjunct — "unless the pointee is a typedef" — gives
    `fn sum3(p: *mut cint)` for `int sum3(cint *p)`; seeded change)."""
    import itertools
    from c08 import _formula, _atoms, _ev
    prog = rep.prog
    b = rep.need(prog.fn("ir::ty::Type::from_clang_ty"), "fn Type::from_clang_ty")

    def is_pointee_of(e, who):
        c = b.canon(strip(e), 8)
        return "clang::Type::pointee_type(" in c and who in c

    sites = []
    for n in b.walk():
        if n["k"] != "Assign" or strip(n["l"]).get("k") != "Local":
            continue
        lets = [x for x in b.walk() if x["k"] == "Let" and x["pat"].get("id") == strip(n["l"])["id"] and x.get("init") is not None]
        init = lets[0]["init"] if lets else None
        if init is None or "clang::Type::pointee_type(param:ty)" not in b.canon(strip(init), 8):
            continue
        r = strip(n["r"])
        rc = b.canon(r, 8)
        if r.get("k") == "Local" and b.local_init(r["id"]) is not None:
            rc = b.canon(b.local_init(r["id"]), 8)
        if "clang::Type::pointee_type(" in rc and "param:ty" not in rc.split("pointee_type(", 1)[1][:12]:
            sites.append((n, init))
    # which arms build something from `ty.pointee_type()` at all: each of them needs the rescue (siblings must agree)
    def arm_of(n):
        for pol, kind, g in b.guards(n, nested=True):
            if kind == "arm":
                vs = [v for v in pat_variants(g[0]["arms"][g[1]]["pat"]) if "CXType_" in v]
                if vs:
                    return tuple(sorted(v.split("::")[-1] for v in vs))
        return None
    WANT = {"CXType_Pointer": "pointer", "CXType_LValueReference": "reference"}
    by_arm = {}
    for asg, init in sites:
        a = arm_of(asg)
        for v in (a or ()):
            if v in WANT:
                by_arm.setdefault(WANT[v], []).append(asg)
    for nm in sorted(set(WANT.values())):
        got = by_arm.get(nm, [])
        if not rep.check(len(got) == 1, nm + ":canonical-pointee-rescue", "one replacement `pointee = <canonical type>.pointee_type()` in the %s arm "
                         "(found %d): without it `const` that libclang only reports on the canonical pointee is lost "
                         "(`typedef const int cint; void f(cint %sp)` becomes `*mut`)" % (nm, len(got), "*" if nm == "pointer" else "&"), b.loc(b.root)):
            continue
        _r4_16_site(rep, b, got[0], nm)


def _r4_16_site(rep, b, asg, nm):
    import itertools
    from c08 import _formula, _atoms, _ev
    # context = whatever also guards the definition of the spelled pointee (the match arm)
    letn = [n for n in b.walk() if n["k"] == "Let" and n["pat"].get("id") == strip(asg["l"])["id"]]
    ctx = set()
    for pol, kind, g in (b.guards(letn[0], nested=True) if letn else []):
        ctx.add((pol, kind, id(g[0]) if isinstance(g, tuple) else id(g)))
    f = ("true",)
    odd = []
    for pol, kind, g in b.guards(asg, nested=True):
        if (pol, kind, id(g[0]) if isinstance(g, tuple) else id(g)) in ctx:
            continue
        if kind != "cond":
            odd.append(kind)
            continue
        x = _formula(b, g)
        f = ("and", f, x if pol else ("not", x))
    if not rep.check(not odd, nm + ":rescue-guards-are-tests", "the replacement is guarded by boolean tests only (found %s)" % odd[:2], b.loc(asg)):
        return
    atoms = sorted(_atoms(f, set()))

    def cls(a):
        if a.count("clang::Type::is_const(") == 2 and (" != " in a or " == " in a):
            return "B!=" if " != " in a else "B=="
        if "clang::Type::is_const(" not in a and "canonical" in a and "param:ty" in a and (" != " in a or " == " in a):
            return "A!=" if " != " in a else "A=="
        return None
    A = [a for a in atoms if (cls(a) or "").startswith("A")]
    B = [a for a in atoms if (cls(a) or "").startswith("B")]
    free = [a for a in atoms if cls(a) is None]
    if not rep.check(bool(B), nm + ":rescue-tests-constness", "the replacement is decided by comparing the const-ness of the two pointees", b.loc(asg)):
        return
    badenv = None
    for vals in itertools.product((False, True), repeat=len(free)):
        env = dict(zip(free, vals))
        env.update({a: cls(a).endswith("!=") for a in A + B})
        if not _ev(f, env):
            badenv = ["%s=%s" % (a[:70], v) for a, v in env.items() if cls(a) is None]
            break
    rep.check(badenv is None, nm + ":rescue-whenever-constness-differs",
              "taken for every pointee whose const-ness differs from the canonical pointee's" if badenv is None else
              "not taken although the const-ness differs when %s: that pointee keeps the spelled (unqualified) type and the %s becomes `*mut`"
              % ("; ".join(badenv)[:200], nm), b.loc(asg))
