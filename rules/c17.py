"""C17 — reported dependencies are exactly the files that were read.

Rules (DESIGN.md §3 C17):

  R17.1  every *source* of a dependency (the input headers; the file of every inclusion
         directive) reaches both sinks — the context's `deps` set and the matching
         `ParseCallbacks` notification on *every* registered callback — under the same
         conditions; `deps` is an ordered set that is only ever grown; the depfile is written
         from the context's `deps`.
  R17.2  who-may-call: `std::env::var*` is called only inside a helper that also hands the same
         key to `ParseCallbacks::read_env_var` on every callback.  Every other read is either in
         the frozen, reasoned exception table below or is reported.
  R17.3  `DepfileSpec::to_string` passes the target and every dependency through `escape`,
         `escape` doubles backslashes *before* it escapes spaces, the target is followed by `:`
         and dependencies are separated by one space.
  R17.4  `CargoCallbacks` prints exactly `cargo:rerun-if-changed=<file>` /
         `cargo:rerun-if-env-changed=<var>`, one `println!` per notification, on stdout.
"""
import re

from engine import RuleSet
from hir import strip, pat_variants, tokenize

RULES = RuleSet("C17", "§3 C17",
                not_decided=["agreement of the reported set with `clang -M` (needs the preprocessor)",
                             "'no file that was not read': libclang reports inclusion directives of skipped regions too",
                             "environment variables read by dependencies (clang-sys: LIBCLANG_PATH, LLVM_CONFIG_PATH) — "
                             "outside crate `bindgen`, announced by build.rs only",
                             "make-compatibility of `:`, `%`, `;` and of a backslash that is not followed by a space (every backslash is doubled, which is what the crate's own unit test pins; R17.3 decides space, backslash, `$`, `#`)"])

CB_TRAIT = "callbacks::ParseCallbacks"
CTX = "ir::context::BindgenContext"
OPTS = "options::BindgenOptions"
SPEC = "deps::DepfileSpec"

# ------------------------------------------------------------------------------------------------
# generic helpers (candidates for hir.py)
# ------------------------------------------------------------------------------------------------

WHOLE = {"iter", "into_iter", "cloned", "copied", "collect", "clone", "to_vec", "to_owned", "as_slice", "as_ref",
         "borrow", "by_ref", "as_deref", "into", "iter_mut", "as_mut"}


def peel_whole(b, e):
    """Peel adaptors that keep *every* element of a collection (iter/cloned/collect/…, identity `map`,
    immutable locals).  Returns (base expression, [names of adaptors that may drop or alter elements])."""
    lossy = []
    seen = 0
    while seen < 40:
        seen += 1
        e = strip(e)
        k = e["k"]
        if k == "Local":
            init = b.local_init(e["id"])
            if init is None:
                return e, lossy
            e = init
        elif k == "MCall":
            nm = e["name"]
            if nm in WHOLE and not e["args"]:
                e = e["recv"]
            elif nm == "map" and len(e["args"]) == 1 and _identity_fn(b, e["args"][0]):
                e = e["recv"]
            elif nm in ("filter", "filter_map", "skip", "take", "skip_while", "take_while", "step_by", "map", "flat_map",
                        "rev", "chain", "zip", "enumerate", "peekable", "dedup", "drain", "split_off", "split_first",
                        "split_last", "get", "first", "last"):
                lossy.append(nm)
                e = e["recv"]
            else:
                return e, lossy
        elif k == "Index":
            lossy.append("[..]")
            e = e["base"]
        else:
            return e, lossy
    return e, lossy


def _identity_fn(b, f):
    """closure `|x| x` / `|x| x.clone()` / path `Clone::clone`, `Into::into`, `String::into_boxed_str`…"""
    f = strip(f)
    if f["k"] == "Closure" and len(f["params"]) == 1 and f["params"][0].get("k") == "Bind":
        body = strip(f["body"])
        return body["k"] == "Local" and body["id"] == f["params"][0]["id"]
    if f["k"] == "Path":
        return f["def"].split("::")[-1] in ("clone", "into", "to_owned", "into_boxed_str", "to_string", "from", "as_ref")
    return False


def peel_value(b, e):
    """Peel value-preserving conversions of one string (`&`, clone, into, into_boxed_str, as_ref, to_string …)."""
    n = 0
    while n < 40:
        n += 1
        e = strip(e)
        if e["k"] == "MCall" and e["name"] in ("into_boxed_str", "to_string", "into_string", "as_ref", "to_owned",
                                               "into_boxed_path", "deref", "as_str") and not e["args"]:
            e = e["recv"]
        elif e["k"] == "Call" and (e.get("callee") or "").split("::")[-1] in ("from", "into", "as_ref") and len(e["args"]) == 1:
            e = e["args"][0]
        elif e["k"] == "Local" and b.local_init(e["id"]) is not None:
            e = b.local_init(e["id"])
        else:
            return e
    return e


def split_path(p):
    """split a def path on `::` outside angle brackets."""
    out, cur, depth = [], "", 0
    i = 0
    while i < len(p):
        c = p[i]
        if c == "<":
            depth += 1
        elif c == ">" and not (i and p[i - 1] == "-"):
            depth -= 1
        if depth == 0 and p.startswith("::", i):
            out.append(cur)
            cur = ""
            i += 2
            continue
        cur += c
        i += 1
    out.append(cur)
    return out


def owner_name(prog, b):
    """Stable, short name of the outermost function enclosing body b (statics / consts / thread_local
    initialisers nested in a function are attributed to that function); generic arguments dropped."""
    segs = split_path(b.path)
    for i in range(1, len(segs) + 1):
        pre = "::".join(segs[:i])
        ob = prog.bodies.get(pre)
        if ob is not None and ob.kind in ("Fn", "AssocFn"):
            segs = segs[:i]
            break
    name = "::".join(s for s in segs if not (s.startswith("<") and s.endswith(">") and " as " not in s))
    m = re.match(r"^<(.+?) as .+?>::(.+)$", name)
    if m:
        name = m.group(1) + "::" + m.group(2)
    return re.sub(r"#\d+$", "", name)


def is_callbacks_collection(b, e):
    """e (peeled) is the whole list of registered callbacks: `BindgenOptions::parse_callbacks` or a
    parameter whose type is a slice/Vec of `Rc<dyn ParseCallbacks>`."""
    base, lossy = peel_whole(b, e)
    if lossy:
        return False, "callbacks filtered by " + ",".join(lossy)
    t = b.ty(base) or ""
    if "dyn " + CB_TRAIT not in t:
        return False, "iterates `%s`" % b.canon(base)
    if base["k"] == "Field" and base.get("adt") == OPTS and base["f"] == "parse_callbacks":
        return True, "BindgenOptions::parse_callbacks"
    if base["k"] == "Local":
        d = b.local_def.get(base["id"])
        if d and d[0][0] == "param" and not d[1]:
            return True, "param:" + base["name"]
    return False, "iterates `%s`" % b.canon(base)


def _loop_exits(b, loop_body, loop):
    """return/break/continue that cut the iteration of `loop` short."""
    out = []
    for n in b.walk(loop_body):
        if n["k"] == "Ret":
            if not any(a["k"] == "Closure" and a is not loop and any(x is loop_body or x is loop for x in b.ancestors(a))
                       for a in b.ancestors(n)):
                out.append(n)
        elif n["k"] in ("Break", "Continue"):
            inner = [a for a in b.ancestors(n) if a["k"] in ("For", "While", "Loop")]
            if not inner or inner[0] is loop or not any(x is loop_body for x in b.ancestors(inner[0])):
                out.append(n)
        elif n["k"] == "Try":
            out.append(n)
    return out


def _fn_param_index(b, local):
    d = b.local_def.get(local["id"])
    if d and d[0][0] == "param" and not d[1]:
        return d[0][1]
    return None


def callback_iterators(prog):
    """Crate functions `F(.., f: impl Fn(&dyn ParseCallbacks))` that call `f` once for every registered
    callback (today: `BindgenOptions::for_each_callback`).  path -> index of the fn-typed parameter."""
    out = {}
    for p, b in prog.bodies.items():
        if b.kind not in ("Fn", "AssocFn"):
            continue
        for c in b.calls(lambda n: n["k"] == "Call" and "f" in n):
            f = strip(c["f"])
            if f["k"] != "Local" or len(c["args"]) != 1:
                continue
            j = _fn_param_index(b, f)
            if j is None:
                continue
            a = peel_value(b, c["args"][0])
            if a["k"] != "Local":
                continue
            ok, _why, _it = per_callback(b, c, a, prog, allow_helpers=False)
            if ok:
                out[p] = j
    return out


def per_callback(b, call, cb_local, prog, allow_helpers=True, helpers=None):
    """Is `call` executed once for every registered callback, `cb_local` being the current callback?
    Returns (ok, why, iteration node)."""
    d = b.local_def.get(cb_local["id"])
    if not d:
        return False, "receiver is not a loop variable", None
    origin = d[0]
    if origin[0] == "for":
        loop = origin[1]
        ok, why = is_callbacks_collection(b, loop["iter"])
        if not ok:
            return False, why, loop
        body = loop["body"]
        it = loop
    elif origin[0] == "cparam":
        clo = origin[1]
        par = b.parent[clo["_i"]]
        body = clo["body"]
        it = par
        if par is None or par["k"] not in ("MCall", "Call"):
            return False, "closure is not passed to an iteration", None
        if par["k"] == "MCall" and par["name"] == "for_each" and "Iterator" in (par.get("callee") or ""):
            ok, why = is_callbacks_collection(b, par["recv"])
            if not ok:
                return False, why, par
        else:
            callee = par.get("resolved") or par.get("callee")
            if not allow_helpers or helpers is None or callee not in helpers:
                return False, "closure is passed to `%s`, which is not known to visit every callback" % callee, par
    else:
        return False, "receiver is not a loop variable", None
    # nothing between the iteration and the call may skip a callback
    gi, gc = b.guards(it), b.guards(call)
    if gc[:len(gi)] != gi:
        return False, "guard chains do not nest", it
    inner = gc[len(gi):]
    if inner:
        return False, "guarded inside the iteration by %s" % "; ".join(guard_str(b, g) for g in inner), it
    ex = _loop_exits(b, body, it)
    if ex:
        return False, "`%s` at %s cuts the iteration over the callbacks short" % (ex[0]["k"].lower(), b.loc(ex[0])), it
    return True, "every callback", it


def guard_str(b, g):
    pol, kind, x = g
    if kind == "cond":
        return ("" if pol else "not ") + b.canon(x, 4)
    if kind == "arm":
        m, i = x
        return "arm %s of match(%s)" % ("|".join(sorted(pat_variants(m["arms"][i]["pat"]))), b.canon(m["scrut"], 3))
    return "let-else " + b.canon(x.get("init", {}), 3)


def callback_calls(prog, method):
    """all calls of ParseCallbacks::<method> outside impls of the trait: [(body, call)]"""
    out = []
    for b in prog.bodies.values():
        if b.fact.get("impl_trait") == CB_TRAIT:
            continue
        for c in b.calls(lambda n: n["k"] == "MCall" and n.get("callee") == CB_TRAIT + "::" + method):
            out.append((b, c))
    return out


def deps_field(n):
    n = strip(n)
    return n["k"] == "Field" and n.get("adt") == CTX and n["f"] == "deps"


# ------------------------------------------------------------------------------------------------
# R17.1
# ------------------------------------------------------------------------------------------------

@RULES.rule("R17.1", "every dependency source reaches the deps set and every callback; depfile written from deps",
            floor=17)  # 19 on the pinned tree; two of them are incidental `deps:reader` sites (Debug impl, getter)
def r17_1(rep):
    """Necessary: a file that influenced the bindings must be in `deps` *and* announced.
    Breaking edits: drop `ctx.add_dep(..)` from the InclusionDirective arm (depfile misses every
    included file: `a.h` including `b.h` gives `out.rs: a.h`); guard it with `if cb.is_empty()`;
    `break` after the first callback (second callback never hears of `b.h`); seed `deps` from
    `input_headers.iter().skip(1)`; turn `deps` into a `HashSet` (depfile order varies between runs);
    write the depfile from a fresh set instead of `context.deps()`."""
    prog = rep.prog
    helpers = callback_iterators(prog)
    rep.note("callback_iterators", sorted(helpers))

    # -- the deps field ---------------------------------------------------------------------------
    ctx = rep.need(prog.adts.get(CTX), "struct " + CTX)
    fld = [f for v in ctx["variants"] for f in v["fields"] if f["name"] == "deps"]
    rep.need(fld, CTX + "::deps")
    fty = prog.types[fld[0]["ty"]]
    rep.check(fty.startswith("std::collections::BTreeSet<") or fty.startswith("std::collections::BTreeMap<"),
              "deps:ordered-set", "`BindgenContext::deps` is `%s`; the depfile lists it in iteration order, which must be "
              "deterministic and duplicate-free" % fty)

    # every use of the field: construction, insert, shared borrow
    inserters = {}  # fn path -> param index that is inserted
    getters = set()
    uses = 0
    for p, b in prog.bodies.items():
        for n in b.walk():
            if not (n["k"] == "Field" and n.get("adt") == CTX and n["f"] == "deps"):
                continue
            uses += 1
            # climb through & / * wrappers
            par = b.parent[n["_i"]]
            via_ref = False
            while par is not None and par["k"] in ("AddrOf", "Unary", "Cast") and par.get("op", "*") == "*":
                via_ref = via_ref or par["k"] == "AddrOf"
                par = b.parent[par["_i"]]
            who = owner_name(prog, b)
            if par is not None and par["k"] == "MCall" and strip(par["recv"]) is n:
                nm = par["name"]
                if nm in ("insert", "extend", "append"):
                    a = peel_value(b, par["args"][0]) if par["args"] else None
                    j = _fn_param_index(b, a) if a is not None and a["k"] == "Local" else None
                    ok = nm == "insert" and j is not None and not b.guards(par)
                    rep.check(ok, "deps:writer@" + who, "`deps.%s(..)` stores the function's parameter unconditionally" % nm
                              if ok else "`deps.%s(%s)` under %d guard(s): a reported dependency may be dropped or altered"
                              % (nm, b.canon(par["args"][0]) if par["args"] else "", len(b.guards(par))), b.loc(par))
                    if ok:
                        inserters[p] = j
                    continue
                if nm in ("iter", "len", "is_empty", "contains", "clone", "get", "first", "last", "range", "is_subset",
                          "is_superset", "union", "difference", "intersection"):
                    rep.ok("deps:reader@" + who, "`deps.%s()` only reads" % nm, b.loc(par))
                    continue
                rep.bad("deps:mutated@" + who, "`deps.%s(..)` can remove or replace recorded dependencies" % nm, b.loc(par))
                continue
            if par is not None and par["k"] in ("Assign", "AssignOp") and strip(par["l"]) is n:
                rep.bad("deps:mutated@" + who, "`deps` is overwritten after construction", b.loc(par))
                continue
            # a plain (shared) borrow: getter or argument
            t = None
            x = b.parent[n["_i"]]
            if x is not None and x["k"] == "AddrOf":
                t = b.ty(x) or ""
            if t is not None and t.startswith("&mut"):
                rep.bad("deps:mutated@" + who, "`&mut self.deps` escapes: recorded dependencies can be removed elsewhere", b.loc(n))
                continue
            tail = b.root.get("tail") if b.root["k"] == "Block" else b.root
            if tail is not None and strip(tail) is n and not b.root.get("stmts"):
                getters.add(p)
            rep.ok("deps:reader@" + who, "shared borrow of `deps`", b.loc(n))
    rep.need(uses, "a use of BindgenContext::deps")
    rep.need(inserters, "a function inserting into BindgenContext::deps (add_dep)")
    rep.note("deps_inserters", sorted(inserters))
    rep.note("deps_getters", sorted(getters))

    # -- source 1: input headers ------------------------------------------------------------------
    seeds = []
    for p, b in prog.bodies.items():
        for n in b.walk():
            if n["k"] == "Struct" and n.get("adt") == CTX:
                seeds.append((b, n))
    rep.need(seeds, "a `BindgenContext { .. }` literal")
    for b, lit in seeds:
        who = owner_name(prog, b)
        fs = {f["f"]: f["e"] for f in lit["fs"]}
        if "deps" not in fs:
            rep.bad("header:deps-seed@" + who, "`deps` is not initialised explicitly (struct update syntax?)", b.loc(lit))
            continue
        base, lossy = peel_whole(b, fs["deps"])
        ok = base["k"] == "Field" and base.get("adt") == OPTS and base["f"] == "input_headers" and not lossy
        rep.check(ok, "header:deps-seed@" + who,
                  "`deps` starts as all of `BindgenOptions::input_headers`" if ok else
                  "`deps` starts as `%s`%s, not as every input header: the depfile omits input headers"
                  % (b.canon(fs["deps"]), (" through " + ",".join(lossy)) if lossy else ""), b.loc(fs["deps"]))

    hsites = callback_calls(prog, "header_file")
    rep.need(hsites, "a call of ParseCallbacks::header_file")
    announced = False
    for b, c in hsites:
        who = owner_name(prog, b)
        recv = strip(c["recv"])
        okcb, why, it = per_callback(b, c, recv, prog, helpers=helpers) if recv["k"] == "Local" else (False, "receiver is `%s`" % b.canon(recv), None)
        rep.check(okcb, "header:all-callbacks@" + who, "`header_file` is called on " + why if okcb else
                  "`header_file` does not reach every callback: " + why, b.loc(c))
        # the argument is the element of a loop over all input headers
        a = peel_value(b, c["args"][0])
        src_ok, detail, loop = False, "argument `%s` is not an element of `input_headers`" % b.canon(c["args"][0]), None
        if a["k"] == "Local":
            d = b.local_def.get(a["id"])
            if d and d[0][0] == "for" and not d[1]:
                loop = d[0][1]
                base, lossy = peel_whole(b, loop["iter"])
                if base["k"] == "Field" and base.get("adt") == OPTS and base["f"] == "input_headers":
                    if lossy:
                        detail = "loop over `input_headers` through %s skips input headers" % ",".join(lossy)
                    else:
                        outer = it if it is not None else c
                        gl, go = b.guards(loop), b.guards(outer)
                        extra = go[len(gl):] if go[:len(gl)] == gl else go
                        ex = [x for x in _loop_exits(b, loop["body"], loop)]
                        if extra:
                            detail = "announcement guarded inside the loop by " + "; ".join(guard_str(b, g) for g in extra)
                        elif ex:
                            detail = "`%s` cuts the loop over the input headers short" % ex[0]["k"].lower()
                        else:
                            src_ok, detail = True, "for every element of `BindgenOptions::input_headers`"
        rep.check(src_ok, "header:header_file@" + who, detail, b.loc(c))
        if src_ok and okcb:
            # … on every path that goes on to generate bindings
            gens = [x for x in b.calls(lambda n: (n.get("callee") or "") == "Bindings::generate")]
            if gens:
                gl = b.guards(loop)
                ok = all(all(g in b.guards(x) for g in gl) and loop["_i"] < x["_i"] for x in gens)
                rep.check(ok, "header:before-generate@" + who, "announced on every path that reaches `Bindings::generate`" if ok else
                          "headers are announced under %s, bindings are generated without it"
                          % "; ".join(guard_str(b, g) for g in gl), b.loc(loop))
            announced = True
    if not announced:
        rep.bad("header:announced", "no site announces every input header to every callback")
    else:
        rep.ok("header:announced")

    # -- source 2: inclusion directives -----------------------------------------------------------
    isites = callback_calls(prog, "include_file")
    dsites = []
    for p, b in prog.bodies.items():
        for c in b.calls(lambda n: (n.get("resolved") or n.get("callee")) in inserters):
            dsites.append((b, c))
    rep.need(isites or dsites, "a call of ParseCallbacks::include_file or of BindgenContext::add_dep")
    if not dsites:
        rep.bad("include:add_dep", "nothing ever calls `%s`: included files never reach `deps` (the depfile lists the input "
                "headers only)" % ", ".join(sorted(inserters)), isites[0][0].loc(isites[0][1]))
    if not isites:
        rep.bad("include:include_file", "nothing ever calls `ParseCallbacks::include_file`: included files are never announced",
                dsites[0][0].loc(dsites[0][1]))
    rep.note("include_file_sites", [b.loc(c) for b, c in isites])
    rep.note("add_dep_sites", [b.loc(c) for b, c in dsites])

    def src_of(b, arg):
        return peel_value(b, arg)

    # pair the sites per function
    fns = sorted({b.path for b, _ in isites} | {b.path for b, _ in dsites})
    for path in fns:
        b = prog.bodies[path]
        who = owner_name(prog, b)
        inc = [c for bb, c in isites if bb is b]
        dep = [c for bb, c in dsites if bb is b]
        if not dep:
            rep.bad("include:add_dep@" + who, "`include_file` is announced here but the file is never added to `deps`: "
                    "the depfile omits included files", b.loc(inc[0]))
            continue
        if not inc:
            rep.bad("include:include_file@" + who, "a dependency is recorded here but never announced through `include_file`",
                    b.loc(dep[0]))
            continue
        for d in dep:
            callee = d.get("resolved") or d.get("callee")
            argi = inserters[callee] - (1 if d["k"] == "MCall" else 0)
            dsrc = src_of(b, d["args"][argi])
            dcan = b.canon(dsrc)
            match = None
            for c in inc:
                if b.canon(src_of(b, c["args"][0])) == dcan:
                    match = c
            if match is None:
                rep.bad("include:same-file@" + who, "`add_dep(%s)` but `include_file(%s)`: the two reports name different files"
                        % (dcan, ", ".join(b.canon(src_of(b, c["args"][0])) for c in inc)), b.loc(d))
                continue
            rep.ok("include:same-file@" + who, "both sinks receive `%s`" % dcan, b.loc(d))
            c = match
            recv = strip(c["recv"])
            okcb, why, it = per_callback(b, c, recv, prog, helpers=helpers) if recv["k"] == "Local" else (False, "receiver is `%s`" % b.canon(recv), None)
            rep.check(okcb, "include:all-callbacks@" + who, "`include_file` is called on " + why if okcb else
                      "`include_file` does not reach every callback: " + why, b.loc(c))
            gd = b.guards(d)
            gc = b.guards(it if it is not None else c)
            rep.check(gd == gc, "include:same-guards@" + who,
                      "recorded and announced under the same conditions" if gd == gc else
                      "`add_dep` runs under [%s] but `include_file` under [%s]" %
                      ("; ".join(guard_str(b, g) for g in gd), "; ".join(guard_str(b, g) for g in gc)), b.loc(d))
            # the conditions themselves: the InclusionDirective arm, then only "the cursor names a file"
            arm_at = None
            for i, g in enumerate(gd):
                if g[1] == "arm":
                    m, ai = g[2]
                    if any(v and v.endswith("CXCursor_InclusionDirective") for v in pat_variants(m["arms"][ai]["pat"])):
                        arm_at = i
                elif g[1] == "cond":
                    if "CXCursor_InclusionDirective" in b.canon(g[2]) and g[0]:
                        arm_at = i
            if not rep.check(arm_at is not None, "include:arm@" + who,
                             "handled for `CXCursor_InclusionDirective` cursors" if arm_at is not None else
                             "the recording site is no longer selected by cursor kind `CXCursor_InclusionDirective`", b.loc(d)):
                continue
            # the file comes from the cursor
            root = dsrc
            opt = None
            if root["k"] == "Local":
                dd = b.local_def.get(root["id"])
                if dd and dd[0][0] == "arm":
                    opt = dd[0][1]["scrut"]
                elif dd and dd[0][0] in ("letcond", "let"):
                    opt = dd[0][1].get("init")
            optc = b.canon(opt) if opt is not None else dcan
            rep.check("clang::Cursor::get_included_file_name" in optc, "include:source@" + who,
                      "the reported name is `%s`" % optc, b.loc(d))
            extra = []
            for g in gd[arm_at + 1:]:
                if g[1] == "arm" and b.canon(g[2][0]["scrut"]) == optc and g[0]:
                    continue
                if g[1] == "cond" and strip(g[2])["k"] == "LetCond" and b.canon(strip(g[2])["init"]) == optc and g[0]:
                    continue
                if g[1] == "letelse" and b.canon(g[2].get("init", {})) == optc:
                    continue
                if g[1] == "cond" and "BindgenOptions::input_header_contents" in b.canon(g[2], 10) and \
                        (g[0] == b.canon(g[2], 10).lstrip("(").startswith("!")):
                    continue    # the one name that is not a file: an in-memory header (shape decided by R17.11)
                extra.append(g)
            rep.check(not extra, "include:unconditional@" + who,
                      "every inclusion directive that names a file is recorded" if not extra else
                      "inclusion directives are only recorded when %s: other included files are never reported"
                      % "; ".join(guard_str(b, g) for g in extra), b.loc(d))

    # -- the depfile is written from the context's deps ------------------------------------------
    wsites = []
    for p, b in prog.bodies.items():
        for c in b.calls(lambda n: (n.get("resolved") or n.get("callee")) == SPEC + "::write"):
            wsites.append((b, c))
    rep.need(wsites, "a call of DepfileSpec::write")
    for b, c in wsites:
        who = owner_name(prog, b)
        args = ([c["recv"]] if c["k"] == "MCall" else []) + c["args"]
        a = strip(args[1])
        from_ctx = deps_field(a)
        if not from_ctx and a["k"] in ("MCall", "Call"):
            from_ctx = (a.get("resolved") or a.get("callee")) in getters
        if not from_ctx and a["k"] == "Local" and b.local_init(a["id"]) is not None:
            x = strip(b.local_init(a["id"]))
            from_ctx = deps_field(x) or (x["k"] in ("MCall", "Call") and (x.get("resolved") or x.get("callee")) in getters)
        rep.check(from_ctx, "depfile:from-context-deps@" + who,
                  "the depfile lists `BindgenContext::deps`" if from_ctx else
                  "the depfile is written from `%s`, not from the context's recorded dependencies" % b.canon(args[1]), b.loc(c))
        rcan = b.canon(args[0])
        rep.check(OPTS + "::depfile" in rcan, "depfile:spec@" + who, "the spec is `%s`" % rcan, b.loc(c))
        extra = []
        for g in b.guards(c):
            txt = guard_str(b, g)
            scrut = None
            if g[1] == "cond" and strip(g[2])["k"] == "LetCond":
                scrut, pat = strip(g[2])["init"], strip(g[2])["pat"]
            elif g[1] == "arm":
                scrut, pat = g[2][0]["scrut"], g[2][0]["arms"][g[2][1]]["pat"]
            elif g[1] == "letelse":
                scrut, pat = g[2].get("init"), g[2]["pat"]
            if g[0] and scrut is not None and b.canon(scrut).endswith(OPTS + "::depfile") and \
                    any((v or "").endswith("::Some") for v in pat_variants(pat)):
                continue
            extra.append(txt)
        rep.check(not extra, "depfile:guard@" + who,
                  "written whenever a depfile was requested" if not extra else
                  "the depfile is only written when %s" % "; ".join(extra), b.loc(c))
    # DepfileSpec::write puts to_string(deps) into depfile_path
    w = rep.need(prog.fn(SPEC + "::write"), "fn DepfileSpec::write")
    outs = [c for c in w.calls(lambda n: (n.get("callee") or "") in ("std::fs::write",) or
                               (n["k"] == "MCall" and n["name"] in ("write_all", "write_str", "write_fmt")))]
    ok = False
    detail = "no `fs::write(depfile_path, to_string(deps))` found"
    for c in outs:
        args = ([c["recv"]] if c["k"] == "MCall" else []) + c["args"]
        content = strip(args[-1])
        if content["k"] == "MCall" and content["name"] == "as_bytes":
            content = strip(content["recv"])
        if content["k"] == "Local" and w.local_init(content["id"]) is not None:
            content = strip(w.local_init(content["id"]))
        if content["k"] in ("MCall", "Call") and (content.get("resolved") or content.get("callee")) == SPEC + "::to_string":
            cargs = ([content["recv"]] if content["k"] == "MCall" else []) + content["args"]
            dl = strip(cargs[1])
            if dl["k"] == "Local" and _fn_param_index(w, dl) == 1 and not w.guards(c):
                path_ok = c.get("callee") != "std::fs::write" or (SPEC + "::depfile_path") in w.canon(args[0])
                if path_ok:
                    ok, detail = True, "`to_string(deps)` is written to `depfile_path`"
                else:
                    detail = "the depfile text is written to `%s`" % w.canon(args[0])
    rep.check(ok, "depfile:write", detail, w.loc(w.root))


# ------------------------------------------------------------------------------------------------
# R17.2
# ------------------------------------------------------------------------------------------------

ENV_FNS = ("std::env::var", "std::env::var_os", "std::env::vars", "std::env::vars_os")

# Frozen triage of the direct reads of the pinned tree.  Key: (variable, outermost enclosing function).
# kind "inert":     the value cannot change the token stream bindgen generates.
# kind "announced": the same variable is announced through the notifying helper on every path of
#                   `Builder::generate` before this read happens (verified structurally below).
EXCEPTIONS = {
    ("RUSTFMT", "Bindings::rustfmt_path"):
        ("inert", "only selects the rustfmt executable that pretty-prints the token stream after generation"),
    ("CARGO_CFG_TARGET_ARCH", "diagnostics::Diagnostic::display"):
        ("inert", "only chooses between `cargo:warning=` and stderr for bindgen's own diagnostics"),
    ("CARGO_CFG_TARGET_ARCH", "features::RustTarget::default"):
        ("inert", "cargo-owned, presence-only gate (\"am I running inside a build script?\") for the rustc version probe; "
                  "cargo re-runs build scripts itself when the target changes"),
    ("TARGET", "find_effective_target"):
        ("announced", "read again after `get_target_dependent_env_var` announced `TARGET` in `Builder::generate`"),
}


def env_reads(prog):
    """every call of / reference to std::env::var* in the crate: [(body, node, key-expression or None)]"""
    out = []
    for b in prog.bodies.values():
        for n in b.walk():
            if n["k"] == "Call" and (n.get("callee") or "") in ENV_FNS:
                out.append((b, n, n["args"][0] if n["args"] else None))
            elif n["k"] == "Path" and n.get("def") in ENV_FNS:
                par = b.parent[n["_i"]]
                if not (par is not None and par["k"] == "Call" and par.get("f") is n):
                    out.append((b, n, None))
    return out


def lit_key(b, e):
    if e is None:
        return None
    e = peel_value(b, e)
    if e["k"] == "Lit" and e.get("lk") == "str":
        return e["v"]
    return None


def notifying_helpers(prog, reads):
    """functions in which an env read of parameter `key` is accompanied by an unconditional
    `read_env_var(key)` on every callback: path -> (index of key parameter, detail)"""
    out = {}
    why = {}
    for b, n, key in reads:
        if n["k"] != "Call" or key is None:
            continue
        k = peel_value(b, key)
        if k["k"] != "Local" or _fn_param_index(b, k) is None:
            continue
        notes = [c for c in b.calls(lambda x: x["k"] == "MCall" and x.get("callee") == CB_TRAIT + "::read_env_var")]
        if not notes:
            why[b.path] = "no `read_env_var` call next to the read"
            continue
        for c in notes:
            a = peel_value(b, c["args"][0])
            if not (a["k"] == "Local" and a["id"] == k["id"]):
                why[b.path] = "`read_env_var(%s)` announces something else than the key that is read (`%s`)" % (
                    b.canon(c["args"][0]), b.canon(key))
                continue
            recv = strip(c["recv"])
            if recv["k"] != "Local":
                why[b.path] = "`read_env_var` receiver is not a loop variable"
                continue
            ok, w, it = per_callback(b, c, recv, prog, helpers=callback_iterators(prog))
            if not ok:
                why[b.path] = "`read_env_var` does not reach every callback: " + w
                continue
            gi, gn = b.guards(it), b.guards(n)
            if not all(g in gn for g in gi):
                why[b.path] = "the notification is guarded by %s, the read is not" % "; ".join(
                    guard_str(b, g) for g in gi if g not in gn)
                continue
            out[b.path] = (_fn_param_index(b, k), "announces its key on every callback, then reads it")
            why.pop(b.path, None)
            break
    return out, why


def always_announces(prog, helpers, var):
    """functions that, whenever they run, call a notifying helper with literal `var` (directly or through an
    unguarded call chain)."""
    ann = set()
    changed = True
    while changed:
        changed = False
        for p, b in prog.bodies.items():
            if p in ann or b.kind not in ("Fn", "AssocFn"):
                continue
            for c in b.calls():
                callee = c.get("resolved") or c.get("callee")
                hit = False
                if callee in helpers:
                    args = ([c["recv"]] if c["k"] == "MCall" else []) + c["args"]
                    j = helpers[callee][0]
                    hit = j < len(args) and lit_key(b, args[j]) == var
                elif callee in ann:
                    hit = True
                if hit and not b.guards(c) and not any(a["k"] == "Closure" for a in b.ancestors(c)):
                    ann.add(p)
                    changed = True
                    break
    return ann


def r17_2(rep):
    """Necessary: a build script is only re-run for variables announced with `read_env_var`
    (`cargo:rerun-if-env-changed=`).  Breaking edit: read `BINDGEN_EXTRA_CLANG_ARGS` with
    `env::var` directly in `get_extra_clang_args` — changing `-DFOO` in the environment then leaves
    stale bindings; drop the `for callback in parse_callbacks` loop from `env_var`; announce
    `"TARGET"` instead of `key`."""
    prog = rep.prog
    reads = env_reads(prog)
    rep.need(reads, "a call of std::env::var*")
    helpers, why_not = notifying_helpers(prog, reads)
    rep.note("notifying_helpers", {p: v[1] for p, v in helpers.items()})
    if not helpers:
        rep.bad("helper", "no function both reads an environment variable and announces it with `read_env_var` on every "
                          "callback (%s)" % "; ".join("%s: %s" % kv for kv in sorted(why_not.items())))
    seen_exc = set()
    for b, n, key in reads:
        who = owner_name(prog, b)
        if b.path in helpers and n["k"] == "Call":
            k = peel_value(b, key)
            if k["k"] == "Local" and _fn_param_index(b, k) == helpers[b.path][0]:
                rep.ok("helper:" + who, helpers[b.path][1], b.loc(n))
                continue
        var = lit_key(b, key)
        fn = (n.get("callee") or n.get("def")).split("::")[-1]
        if var is None:
            rep.bad("env:<dynamic>@" + who, "`env::%s(%s)` without `read_env_var`%s" % (
                fn, b.canon(key) if key is not None else "…",
                (": " + why_not[b.path]) if b.path in why_not else ""), b.loc(n))
            continue
        exc = EXCEPTIONS.get((var, who))
        inst = "env:%s@%s" % (var, who)
        if exc is None:
            rep.bad(inst, "`env::%s(\"%s\")` is read without notifying `ParseCallbacks::read_env_var`: no "
                          "`cargo:rerun-if-env-changed=%s` is printed, so a change of the variable leaves stale bindings"
                    % (fn, var, var), b.loc(n))
            continue
        seen_exc.add((var, who))
        kind, reason = exc
        if kind == "inert":
            rep.ok(inst, "exception (cannot influence the bindings): " + reason, b.loc(n))
            continue
        # announced elsewhere: verify the announcement dominates this read
        ann = always_announces(prog, helpers, var)
        ok, detail = False, "no function announces `%s` unconditionally" % var
        callers = {}
        for p2, b2 in prog.bodies.items():
            for c in b2.calls():
                callee = c.get("resolved") or c.get("callee")
                callers.setdefault(callee, []).append((b2, c))
        # walk up single-caller chains from the reader until a function that announces first
        cur, hops, trail = b.path, 0, []
        while hops < 6:
            hops += 1
            cs = callers.get(cur, [])
            if not cs:
                detail = "no unconditional announcement of `%s` precedes the read on the way down from `%s` (%s)" % (
                    var, owner_name(prog, prog.bodies[cur]) if cur in prog.bodies else cur, " <- ".join(trail))
                break
            if len(cs) != 1:
                detail = "`%s` has %d callers; cannot show that `%s` was announced before each" % (cur, len(cs), var)
                break
            trail.append(owner_name(prog, cs[0][0]))
            b2, c = cs[0]
            pre = [x for x in b2.calls() if (x.get("resolved") or x.get("callee")) in ann and x["_i"] < c["_i"]
                   and all(g in b2.guards(c) for g in b2.guards(x)) and not any(a["k"] == "Closure" for a in b2.ancestors(x))]
            if pre:
                ok = True
                detail = "%s; announced by `%s` in `%s` before the read" % (reason, pre[0].get("callee"), owner_name(prog, b2))
                break
            cur = b2.path
        rep.check(ok, inst, detail if ok else "`env::%s(\"%s\")`: %s" % (fn, var, detail), b.loc(n))
    rep.note("exceptions_used", sorted("%s@%s" % k for k in seen_exc))


RULES.rule("R17.2", "std::env::var* only inside the helper that notifies read_env_var (exceptions triaged)",
           floor=4, configs=("cli", "min"))(r17_2)
# `Default for RustTarget` reads the environment only without feature `__cli`; the quick tier must see it too
RULES.rule("R17.2", "std::env::var* only inside the notifying helper — library configuration",
           floor=6, configs=("lib",))(r17_2)


# ------------------------------------------------------------------------------------------------
# format-string helpers
# ------------------------------------------------------------------------------------------------

def rust_str(tok):
    """value of a Rust string-literal token (plain or raw); None if not a string literal."""
    m = re.match(r'^r(#*)"(.*)"\1$', tok, re.S)
    if m:
        return m.group(2)
    if not (tok.startswith('"') and tok.endswith('"')):
        return None
    s, out, i = tok[1:-1], "", 0
    esc = {"n": "\n", "t": "\t", "r": "\r", "\\": "\\", '"': '"', "'": "'", "0": "\0"}
    while i < len(s):
        if s[i] == "\\" and i + 1 < len(s):
            c = s[i + 1]
            if c in esc:
                out += esc[c]
                i += 2
                continue
            if c == "\n":  # line continuation
                i += 2
                while i < len(s) and s[i] in " \t\n\r":
                    i += 1
                continue
            if c == "x":
                out += chr(int(s[i + 2:i + 4], 16))
                i += 4
                continue
            if c == "u":
                j = s.index("}", i)
                out += chr(int(s[i + 3:j], 16))
                i = j + 1
                continue
        out += s[i]
        i += 1
    return out


def format_template(prog, site):
    """(literal pieces, placeholder specs) of the format string at a format!/println! call site.
    len(pieces) == len(placeholders) + 1.  None if the first argument is not a string literal."""
    text = prog.text(list(site))
    m = re.match(r"\s*[A-Za-z_:0-9$]+\s*!\s*[\(\[\{]", text, re.S)
    if not m:
        return None
    inner = text[m.end():]
    m2 = re.match(r'\s*(r#*"|")', inner)
    if not m2:
        return None
    toks = tokenize(inner)
    fmt = rust_str(toks[0]) if toks else None
    if fmt is None:
        mm = re.match(r'\s*(r(#*)".*?"\2)', inner, re.S)
        fmt = rust_str(mm.group(1)) if mm else None
    if fmt is None:
        return None
    pieces, holes, cur, i = [], [], "", 0
    while i < len(fmt):
        if fmt.startswith("{{", i) or fmt.startswith("}}", i):
            cur += fmt[i]
            i += 2
        elif fmt[i] == "{":
            j = fmt.index("}", i)
            holes.append(fmt[i + 1:j])
            pieces.append(cur)
            cur = ""
            i = j + 1
        else:
            cur += fmt[i]
            i += 1
    pieces.append(cur)
    return pieces, holes


def format_roots(b, names):
    """[(site, macro name, root node)] of the outermost invocations of the named formatting macros."""
    return [(s, nm, n) for s, nm, n in b.macro_roots(set(names))]


def format_args_in_order(b, root):
    """argument expressions of one format_args! expansion, in placeholder order (HIR, so inline
    `{name}` captures are resolved by the compiler).  None when the expansion is not understood."""
    tups = [n for n in b.walk(root) if n["k"] == "Tup" and b.parent[n["_i"]]["k"] == "Let" and
            b.macro_site(n) == b.macro_site(root)]
    news = [n for n in b.walk(root) if n["k"] == "Call" and "fmt::rt::Argument" in (n.get("callee") or "") and
            b.macro_site(n) == b.macro_site(root)]
    if not news:
        return []
    if len(tups) != 1:
        return None
    es = tups[0]["es"]
    out = []
    for n in news:
        a = n["args"][0]
        while a["k"] in ("AddrOf",):
            a = a["e"]
        if a["k"] == "Field" and a["f"].isdigit() and int(a["f"]) < len(es):
            out.append((n["callee"].split("::")[-1], es[int(a["f"])]))
        else:
            return None
    return out


# ------------------------------------------------------------------------------------------------
# R17.3
# ------------------------------------------------------------------------------------------------

def escaper_of(prog, b, call):
    """resolve `escape(x)`: (body, root expression, parameter local id) of the closure / function called."""
    if call["k"] == "Call" and "f" in call:
        f = strip(call["f"])
        if f["k"] == "Local":
            init = b.local_init(f["id"])
            if init is not None and strip(init)["k"] == "Closure":
                clo = strip(init)
                if len(clo["params"]) == 1 and clo["params"][0].get("k") == "Bind":
                    return b, clo["body"], clo["params"][0]["id"], "closure `%s`" % f["name"]
        return None
    callee = call.get("resolved") or call.get("callee")
    fb = prog.fn(callee) if callee else None
    if fb is None:
        return None
    args = ([call["recv"]] if call["k"] == "MCall" else []) + call["args"]
    if len(args) != 1 or len(fb.params) != 1 or fb.params[0].get("k") != "Bind":
        return None
    return fb, fb.root, fb.params[0]["id"], "fn `%s`" % callee


def escape_semantics(b, root, pid):
    """Ordered list of (from, to) substitutions applied to the parameter, for the two shapes
    `s.replace(a, b).replace(c, d)…` (order = application order) and
    `for c in s.chars() { match c { 'a' => out.push_str("b"), …, c => out.push(c) } }` (simultaneous).
    Returns (kind, pairs) or (None, reason)."""
    e = strip(root)
    while e["k"] == "Block" and e.get("tail") is not None and not [s for s in e["stmts"] if s["k"] != "Let"]:
        e = strip(e["tail"])
    chain = []
    n = 0
    while n < 30:
        n += 1
        e = strip(e)
        if e["k"] == "Local" and e["id"] != pid and b.local_init(e["id"]) is not None:
            e = b.local_init(e["id"])
            continue
        if e["k"] == "MCall" and e["name"] == "replace" and "str" in (e.get("callee") or "") and len(e["args"]) == 2:
            fr, to = strip(e["args"][0]), strip(e["args"][1])
            if fr["k"] != "Lit" or to["k"] != "Lit":
                return None, "`replace` with a non-literal argument"
            chain.append((fr["v"], to["v"]))
            e = e["recv"]
            continue
        break
    if chain:
        if e["k"] == "Local" and e["id"] == pid:
            chain.reverse()
            return "sequential", chain
        return None, "the replace chain does not start from the parameter but from `%s`" % b.canon(e)
    # per-character form
    for loop in b.walk(root):
        if loop["k"] != "For":
            continue
        it = strip(loop["iter"])
        if not (it["k"] == "MCall" and it["name"] == "chars" and strip(it["recv"]).get("id") == pid):
            continue
        cid = loop["pat"].get("id")
        for m in b.walk(loop["body"]):
            if m["k"] == "Match" and strip(m["scrut"]).get("id") == cid:
                pairs, passthrough = [], False
                for arm in m["arms"]:
                    pushes = [c for c in b.calls(lambda x: x["k"] == "MCall" and x["name"] in ("push_str", "push"), arm["body"])]
                    vs = pat_variants(arm["pat"])
                    if len(pushes) != 1:
                        return None, "an arm of the per-character match does not push exactly once"
                    a = strip(pushes[0]["args"][0])
                    if "_" in vs:
                        passthrough = a["k"] == "Local"
                        continue
                    if a["k"] != "Lit":
                        return None, "an arm pushes a non-literal"
                    for v in vs:
                        mm = re.match(r"^lit:'(.*)'$", v, re.S)
                        if not mm:
                            return None, "unrecognised arm pattern %s" % v
                        ch = mm.group(1)
                        ch = "\\" if ch == "\\\\" else ch
                        pairs.append((ch, a["v"]))
                if not passthrough:
                    return None, "other characters are not copied through"
                return "simultaneous", pairs
    return None, "neither a `str::replace` chain on the parameter nor a per-character match"


@RULES.rule("R17.3", "depfile text: target and every dependency escaped (space, backslash, `$`, `#`); backslash before space", floor=14)
def r17_3(rep):
    """Necessary: `make` must parse the depfile back to the same paths.
    Breaking edits: `escape` = `s.replace(' ', "\\ ").replace('\\', "\\\\")` turns `a b.h` into
    `a\\\\ b.h` (two files for make); `format!("{buf} {}", file)` lists `my dir/x.h` as two
    prerequisites; `format!("{}:", self.output_module)` breaks a target with a space; `"{buf}{}"`
    glues the prerequisites together."""
    prog = rep.prog
    b = rep.need(prog.fn(SPEC + "::to_string"), "fn DepfileSpec::to_string")
    dparam = None
    for i, p in enumerate(b.params):
        if "BTreeSet" in (prog.types[p["t"]] if p.get("t") is not None else "") or p.get("name") == "deps":
            dparam = p
    if dparam is None and len(b.params) == 2:
        dparam = b.params[1]
    rep.need(dparam, "the dependency-set parameter of DepfileSpec::to_string")

    # the loop over all dependencies
    loops = []
    for n in b.walk():
        if n["k"] == "For":
            base, lossy = peel_whole(b, n["iter"])
            if base["k"] == "Local" and base["id"] == dparam.get("id"):
                loops.append((n, lossy))
    if not rep.check(len(loops) == 1, "deps-loop", "one loop over the whole dependency set (found %d)" % len(loops), b.loc(b.root)):
        return
    loop, lossy = loops[0]
    ex = _loop_exits(b, loop["body"], loop)
    rep.check(not lossy and not ex and not b.guards(loop), "deps-loop:every-dependency",
              "every element of `deps` is visited" if not (lossy or ex or b.guards(loop)) else
              "dependencies are skipped (%s)" % ", ".join(lossy + [x["k"].lower() for x in ex] +
                                                          [guard_str(b, g) for g in b.guards(loop)]), b.loc(loop))
    elem_ids = set()
    if loop["pat"].get("k") == "Bind":
        elem_ids.add(loop["pat"]["id"])

    # every formatted piece
    roots = format_roots(b, ("format", "write", "writeln", "format_args"))
    rep.need(roots, "a format!/write! in DepfileSpec::to_string")
    escapers = {}
    target_sites, dep_sites = [], []
    acc_ids = set()
    for site, nm, root in roots:
        args = format_args_in_order(b, root)
        tpl = format_template(prog, site)
        where = b.loc(root)
        if args is None or tpl is None or len(tpl[1]) != len(args):
            rep.bad("format:unreadable", "cannot relate the format string of `%s!` to its arguments" % nm, where)
            continue
        pieces, holes = tpl
        in_loop = any(a is loop for a in b.ancestors(root))
        kinds = []
        for (how, a), hole in zip(args, holes):
            a0 = strip(a)
            hops = 0
            while a0["k"] == "Local" and b.local_init(a0["id"]) is not None and a0["id"] not in b.local_mut and hops < 8:
                a0 = strip(b.local_init(a0["id"]))
                hops += 1
            role = None
            if a0["k"] in ("Call", "MCall"):
                esc = escaper_of(prog, b, a0)
                if esc is not None:
                    cargs = ([a0["recv"]] if a0["k"] == "MCall" else []) + a0["args"]
                    inner = peel_value(b, cargs[0])
                    escapers[id(esc[1])] = esc
                    if inner["k"] == "Field" and inner.get("adt") == SPEC and inner["f"] == "output_module":
                        role = "target"
                    elif inner["k"] == "Local" and inner["id"] in elem_ids:
                        role = "dep"
                    else:
                        role = "escaped:" + b.canon(inner)
            if role is None:
                v = peel_value(b, a0) if a0["k"] != "Local" else a0
                if v["k"] == "Local" and v["id"] in b.local_assigned | b.local_mut and v["id"] not in elem_ids:
                    role = "acc"
                    acc_ids.add(v["id"])
                elif v["k"] == "Field" and v.get("adt") == SPEC and v["f"] == "output_module":
                    role = "raw-target"
                elif v["k"] == "Local" and v["id"] in elem_ids:
                    role = "raw-dep"
                else:
                    role = "raw:" + b.canon(a0)
            if how != "new_display" or (":" in hole and hole.split(":", 1)[1] not in ("",)):
                role = "reformatted-" + role
            kinds.append(role)
        for r in kinds:
            if r.startswith("raw") or r.startswith("reformatted"):
                what = "the target" if "target" in r else ("a dependency" if "dep" in r else "`%s`" % r.split(":", 1)[-1])
                how_txt = "formatted with something else than plain `{}` (Display), which alters the escaped text" \
                    if r.startswith("reformatted") else "written to the depfile without `escape`"
                rep.bad("escape-applied:" + ("target" if "target" in r else "dep" if "dep" in r else "other"),
                        "%s is %s (%s)" % (what, how_txt, r), where)
        if "target" in kinds:
            i = kinds.index("target")
            ok = pieces[i] == "" and pieces[i + 1].startswith(":") and not in_loop and not b.guards(root)
            rep.check(ok, "target:colon", "`<escaped target>:` starts the rule" if ok else
                      "the target is written as %r<target>%r%s" % (pieces[i], pieces[i + 1], " inside the loop" if in_loop else ""), where)
            target_sites.append(root)
        if "dep" in kinds:
            i = kinds.index("dep")
            ok = in_loop and pieces[i] == " " and pieces[i + 1] == "" and kinds[:i] == ["acc"] and pieces[0] == "" and \
                not [g for g in b.guards(root) if g not in b.guards(loop)]
            if in_loop and kinds[:i] == [] and pieces[i] == " ":
                ok = pieces[i + 1] == ""  # `write!(buf, " {}", escape(file))`
            rep.check(ok, "dep:separator", "each dependency is appended as `<so far> <escaped dep>`" if ok else
                      "dependencies are joined as %s with arguments %s" % ("{}".join(repr(p) for p in pieces), kinds), where)
            dep_sites.append(root)
    rep.check(len(target_sites) == 1, "escape-applied:target", "`escape(&self.output_module)` is formatted once (found %d)"
              % len(target_sites), b.loc(b.root))
    rep.check(len(dep_sites) == 1, "escape-applied:dep", "`escape(<loop element>)` is formatted once per dependency (found %d)"
              % len(dep_sites), b.loc(loop))
    # the accumulated string is what is returned
    tail = b.root.get("tail")
    t = strip(tail) if tail is not None else None
    rep.check(t is not None and t["k"] == "Local" and (t["id"] in acc_ids or not acc_ids), "result",
              "the accumulated text is returned", b.loc(b.root))

    # the escaping function itself
    rep.need(escapers, "a call of the escaping closure/function inside a format argument")
    rep.check(len(escapers) == 1, "escape:single", "target and dependencies use the same escaping function (%d found)" % len(escapers),
              b.loc(b.root))
    for eb, root, pid, name in escapers.values():
        kind, pairs = escape_semantics(eb, root, pid)
        if kind is None:
            rep.bad("escape:shape", "%s: %s" % (name, pairs), eb.loc(root))
            continue
        rep.note("escape", {"form": kind, "pairs": pairs})
        d = dict(pairs)
        rep.check(d.get("\\") == "\\\\", "escape:backslash", "`\\` becomes `\\\\` (%r)" % (d.get("\\"),), eb.loc(root))
        rep.check(d.get(" ") == "\\ ", "escape:space", "` ` becomes `\\ ` (%r)" % (d.get(" "),), eb.loc(root))
        # make's other two specials in a prerequisite list (what `clang -M` writes for them): `$` starts a variable reference, `#` a comment
        rep.check(d.get("$") == "$$", "escape:dollar", "`$` becomes `$$` (%r)" % (d.get("$"),) if d.get("$") == "$$" else
                  "`$` is written verbatim: make reads `do$lar.h` as `do` + the variable `$l` + `ar.h`", eb.loc(root))
        rep.check(d.get("#") == "\\#", "escape:hash", "`#` becomes `\\#` (%r)" % (d.get("#"),) if d.get("#") == "\\#" else
                  "`#` is written verbatim: make treats the rest of the line as a comment and loses every later prerequisite", eb.loc(root))
        if kind == "sequential" and "\\" in d:
            at = [i for i, (f, _) in enumerate(pairs) if f == "\\"][0]
            early = [(f, t) for i, (f, t) in enumerate(pairs) if i < at and "\\" in t]
            rep.check(not early, "escape:order",
                      "backslashes are doubled before any backslash is inserted" if not early else
                      "%s inserted `\\` before the backslash replacement runs: the inserted backslash is doubled "
                      "(`a b` becomes `a\\\\ b`)" % ", ".join("replace(%r, %r)" % p for p in early), eb.loc(root))
            dup = [f for i, (f, _) in enumerate(pairs) if [g for g, _ in pairs].count(f) > 1]
            rep.check(not dup, "escape:once", "each character is replaced once", eb.loc(root))
        else:
            rep.ok("escape:order", "simultaneous per-character substitution", eb.loc(root))
            rep.ok("escape:once", "", eb.loc(root))


# ------------------------------------------------------------------------------------------------
# R17.4
# ------------------------------------------------------------------------------------------------

CARGO = {"header_file": "cargo:rerun-if-changed=", "include_file": "cargo:rerun-if-changed=",
         "read_env_var": "cargo:rerun-if-env-changed="}


@RULES.rule("R17.4", "CargoCallbacks prints one `cargo:rerun-if-*=<x>` line per notification", floor=16)
def r17_4(rep):
    """Necessary: cargo only understands `cargo:rerun-if-changed=PATH` / `cargo:rerun-if-env-changed=VAR`
    on a line of its own on the build script's stdout.  Breaking edits: `print!` instead of
    `println!` (two directives share a line and the second is part of the first path);
    `eprintln!` (cargo never sees it); prefix `cargo:rerun-if-changed=` for `read_env_var`
    (cargo watches a *file* called `TARGET`); an `if` that drops some files."""
    prog = rep.prog
    for meth, prefix in sorted(CARGO.items()):
        b = prog.impl_fn(CB_TRAIT, "CargoCallbacks", meth)
        if b is None:
            rep.bad("cargo:%s:overridden" % meth, "`CargoCallbacks` does not override `%s`: the default does nothing" % meth)
            continue
        rep.ok("cargo:%s:overridden" % meth, "", b.loc(b.root))
        pid = b.params[1].get("id") if len(b.params) == 2 else None
        roots = format_roots(b, ("println", "print", "eprintln", "eprint", "write", "writeln"))
        good = []
        for site, nm, root in roots:
            tpl = format_template(prog, site)
            args = format_args_in_order(b, root)
            if tpl is None or args is None or len(tpl[1]) != len(args):
                rep.bad("cargo:%s:format" % meth, "cannot read the format string of `%s!`" % nm, b.loc(root))
                continue
            pieces, holes = tpl
            if not any(p.startswith("cargo:") for p in pieces):
                continue
            to_stdout = any((c.get("callee") or "") == "std::io::_print" for c in b.calls(None, root))
            ok_line = nm == "println" and to_stdout
            a = [peel_value(b, x) for _, x in args]
            ok_fmt = pieces == [prefix, ""] and len(a) == 1 and a[0]["k"] == "Local" and a[0]["id"] == pid and \
                args[0][0] == "new_display" and holes[0].split(":", 1)[-1] in ("", holes[0])
            rep.check(ok_fmt, "cargo:%s:format" % meth,
                      "prints `%s<argument>`" % prefix if ok_fmt else
                      "prints %s with %s; cargo expects exactly `%s<argument>`" %
                      ("{}".join(repr(p) for p in pieces), [b.canon(x) for _, x in args], prefix), b.loc(root))
            rep.check(ok_line, "cargo:%s:line" % meth, "`println!` to stdout" if ok_line else
                      "`%s!`%s: cargo needs one directive per line on stdout" % (nm, "" if to_stdout else " (not stdout)"), b.loc(root))
            gs = b.guards(root)
            if meth == "header_file":
                extra = [g for g in gs if not (g[0] and g[1] == "cond" and strip(g[2])["k"] == "Field" and
                                               strip(g[2]).get("adt") == "CargoCallbacks" and strip(g[2])["f"] == "rerun_on_header_files")]
            else:
                extra = gs
            extra = extra or [x for x in b.ancestors(root) if x["k"] in ("For", "While", "Loop", "Closure")]
            rep.check(not extra, "cargo:%s:unconditional" % meth,
                      "printed for every notification" if not extra else "the directive is only printed under extra conditions / in a loop",
                      b.loc(root))
            good.append(root)
        rep.check(len(good) == 1, "cargo:%s:once" % meth, "exactly one directive per notification (found %d)" % len(good), b.loc(b.root))
    # CargoCallbacks::new() enables header files
    nb = prog.fn("CargoCallbacks::new")
    rep.need(nb, "fn CargoCallbacks::new")
    lit = [n for n in nb.walk() if n["k"] == "Struct" and n.get("adt") == "CargoCallbacks"]
    v = None
    if lit:
        for f in lit[0]["fs"]:
            if f["f"] == "rerun_on_header_files":
                v = strip(f["e"]).get("v")
    rep.check(v is True, "cargo:new:header-files-on", "`CargoCallbacks::new()` reports input headers (rerun_on_header_files = %r)" % (v,),
              nb.loc(nb.root))
    # every other public way to obtain a CargoCallbacks value agrees with new(): `Default` (hand-written or derived)
    db = prog.impl_fn("std::default::Default", "CargoCallbacks", "default")
    if db is None:
        rep.ok("cargo:default:header-files-on", "CargoCallbacks has no Default impl; new() is the only constructor")
    else:
        vals = []
        for n in db.walk():
            if n["k"] == "Call" and (n.get("callee") or n.get("resolved") or "") == "CargoCallbacks::new":
                vals.append(True)
            elif n["k"] == "Struct" and n.get("adt") == "CargoCallbacks":
                for f in n["fs"]:
                    if f["f"] == "rerun_on_header_files":
                        e = strip(f["e"])
                        vals.append(e.get("v") if e.get("k") == "Lit" else
                                    (False if "Default>::default" in db.canon(e) else None))
        rep.check(bool(vals) and all(x is True for x in vals), "cargo:default:header-files-on",
                  "`CargoCallbacks::default()` reports input headers like new() (rerun_on_header_files = %r)" % (vals,), db.loc(db.root))


@RULES.rule("R17.5", "depfile text is assembled from whole strings/chars: no byte is turned into a char on its own", floor=1)
def r17_5(rep):
    """`b as char` on the bytes of a path maps every byte >= 0x80 to a Latin-1 character: a non-ASCII file name
    (`münze.h`) is written to the depfile as a different name (`mÃ¼nze.h`) that was never read, and the real file is
    missing from the list."""
    prog = rep.prog
    roots = [p for p, b in prog.bodies.items() if "deps::DepfileSpec" in p or p.startswith("deps::")]
    rep.need(roots, "functions of bindgen::deps")
    seen = 0
    stack = list(roots)
    done = set()
    while stack:
        p = stack.pop()
        if p in done or p not in prog.bodies:
            continue
        done.add(p)
        b = prog.bodies[p]
        if "::tests::" in p:
            continue
        seen += 1
        for n in b.walk():
            if n["k"] == "Cast" and b.ty(n) == "char" and b.ty(strip(n["e"])) == "u8":
                rep.bad("byte-as-char@" + p.split("::")[-1], "`%s as char` widens a single UTF-8 byte to a character: non-ASCII paths are "
                        "written as different names" % b.canon(n["e"], 3), b.loc(n))
            if n["k"] in ("Call", "MCall") and re.search(r"(from_utf8_unchecked|from_utf8_lossy|char::from_u32_unchecked|<char as std::convert::From<u8>>::from)",
                                                          n.get("resolved") or n.get("callee") or ""):
                rep.bad("lossy-conversion@" + p.split("::")[-1], "`%s` in the depfile text path" % (n.get("callee")), b.loc(n))
        for c in b.calls():
            t = c.get("resolved") or c.get("callee") or ""
            if t.startswith("deps::"):
                stack.append(t)
    rep.ok("functions-scanned:%d" % seen)


# ---------------------------------------------------------------------------------------------------------
# R17.6  the main translation unit always carries the preprocessing record (inclusion directives are cursors)
# ---------------------------------------------------------------------------------------------------------
PPREC = "clang_sys::CXTranslationUnit_DetailedPreprocessingRecord"


def _option_leaves(b, e, depth=8):
    """the expressions a parse-options value can evaluate to: follows immutable lets, if/else, match, blocks."""
    e = strip(e)
    k = e.get("k")
    if depth <= 0:
        return [e]
    if k == "Local":
        init = b.local_init(e["id"])
        if init is not None:
            return _option_leaves(b, init, depth - 1)
        # `let mut opts = A; if c { opts |= B; }`: the initialiser is the least the value contains (`|=` only adds bits)
        d = b.local_def.get(e["id"])
        if d and d[0][0] == "let" and not d[1] and "init" in d[0][1]:
            plain = [n for n in b.nodes if n["k"] == "Assign" and strip(n["l"]).get("k") == "Local" and strip(n["l"])["id"] == e["id"]]
            ored = [n for n in b.nodes if n["k"] == "AssignOp" and strip(n["l"]).get("k") == "Local" and strip(n["l"])["id"] == e["id"]]
            if not plain and all(n["op"] in ("|", "|=", "BitOr") for n in ored):
                return _option_leaves(b, d[0][1]["init"], depth - 1)
            out = _option_leaves(b, d[0][1]["init"], depth - 1)
            for n in plain:
                out += _option_leaves(b, n["r"], depth - 1)
            return out if not [n for n in ored if n["op"] not in ("|", "|=", "BitOr")] else [e]
        return [e]
    if k == "Block" and e.get("tail") is not None:
        return _option_leaves(b, e["tail"], depth - 1)
    if k == "If" and "else" in e:
        return _option_leaves(b, e["then"], depth - 1) + _option_leaves(b, e["else"], depth - 1)
    if k == "Match":
        out = []
        for a in e["arms"]:
            out += _option_leaves(b, a["body"], depth - 1)
        return out
    return [e]


def _has_bit(b, e, bit):
    e = strip(e)
    if e.get("k") == "Path" and e.get("def") == bit:
        return True
    if e.get("k") == "Binary" and e["op"] in ("|", "BitOr"):
        return _has_bit(b, e["l"], bit) or _has_bit(b, e["r"], bit)
    if e.get("k") == "Local":
        return all(_has_bit(b, x, bit) for x in _option_leaves(b, e)) if b.local_init(e["id"]) is not None else False
    return False


@RULES.rule("R17.6", "the bindings' translation unit is always parsed with the detailed preprocessing record", floor=1)
def r17_6(rep):
    """Necessary: `Item::parse` learns about included files only from `CXCursor_InclusionDirective` cursors, and libclang
    materialises those only under `CXTranslationUnit_DetailedPreprocessingRecord`.  Dropping the bit on some path
    (`if options.codegen_config.vars() || !options.parse_callbacks.is_empty() { RECORD } else { None }`) leaves
    `bindgen --generate functions,types --depfile d a.h` with a depfile that lists only a.h."""
    prog = rep.prog
    new = rep.need(prog.fn("ir::context::BindgenContext::new"), "BindgenContext::new")
    calls = [c for c in new.calls(lambda n: n["k"] == "Call" and (n.get("callee") or n.get("resolved") or "") == "clang::TranslationUnit::parse")]
    rep.need(calls, "call of clang::TranslationUnit::parse in BindgenContext::new")
    for c in calls:
        leaves = _option_leaves(new, c["args"][4])
        missing = [x for x in leaves if not _has_bit(new, x, PPREC)]
        rep.check(not missing, "tu-parse:preprocessing-record", "every value of the parse options contains the record bit (%d value%s)" %
                  (len(leaves), "" if len(leaves) == 1 else "s") if not missing else
                  "parse options may be `%s`, without %s: no inclusion directive is reported" % (new.canon(missing[0], 3), PPREC.split("::")[-1]),
                  new.loc(missing[0]) if missing else new.loc(c))


@RULES.rule("R17.7", "headers forced in through `-include` on the clang command line are dependencies too", floor=1)
def r17_7(rep):
    """libclang's inclusion cursor for a command-line `-include FILE` has no source file of its own and is dropped by the builtin
    filter, so such a file reaches neither the depfile nor the callbacks unless the `-include` arguments themselves are treated as a
    dependency source (the builder's own extra headers are: they are seeded from `options.input_headers`).
    `bindgen a.h --depfile d -- -include forced.h` binds `forced` but lists only `a.h`; `clang -M` lists both."""
    prog = rep.prog
    sites = []
    for p, b in sorted(prog.bodies.items()):
        if not b.file.startswith("bindgen/"):
            continue
        lits_ = [n for n in b.nodes if n["k"] == "Lit" and n.get("v") in ("-include", "--include", "-imacros")]
        if not lits_:
            continue
        # recognising means comparing an argument with the literal (or matching on it), not writing the literal into the command line
        def compared(l_):
            par = b.parent[l_["_i"]]
            while par is not None and par["k"] in ("AddrOf", "Unary", "Cast"):
                par = b.parent[par["_i"]]
            return par is not None and ((par["k"] == "Binary" and par["op"] in ("==", "!=")) or
                                        (par["k"] == "MCall" and par.get("name") in ("eq", "ne", "starts_with", "strip_prefix", "contains")))
        recognises = any(compared(l_) for l_ in lits_) or any(m_["k"] == "Match" and any("-include" in str(v) for a_ in m_["arms"] for v in pat_variants(a_["pat"]))
                                                               for m_ in b.nodes)
        reads_args = any(n["k"] == "Field" and str(n.get("adt", "")).endswith("BindgenOptions") and n["f"] in ("clang_args", "fallback_clang_args")
                         for n in b.nodes) or any("clang_args" in str(prm.get("name", "")) for prm in b.params)
        feeds = any(c["k"] == "MCall" and (c.get("name") in ("add_dep", "header_file", "include_file") or
                                          (c.get("name") in ("insert", "extend", "push") and "deps" in b.canon(c["recv"], 4)))
                    for c in b.nodes)
        sites.append((b, lits_[0], reads_args and recognises, feeds))
    rep.need(sites, "code that recognises `-include` in the clang arguments")
    ok = any(reads and feeds for _, _, reads, feeds in sites)
    # the other way to get there: the builtin filter of the traversal lets the (file-less) inclusion directives of the predefines
    # buffer through.  Decided on the filter's result with builtins = off and is_builtin = true.
    if not ok:
        import itertools
        import c08
        for p, fb in sorted(prog.bodies.items()):
            tail = fb.root.get("tail") if isinstance(fb.root, dict) else None
            if tail is None or not any(c.get("callee", "").endswith("clang::Cursor::is_builtin") for c in fb.calls()):
                continue
            if (prog.types[fb.fact["output"]] if fb.fact.get("output") is not None else "") != "bool":
                continue
            f = c08._formula(fb, tail)
            atoms = sorted(c08._atoms(f, set()))
            fixed = {}
            for a in atoms:
                if "Cursor::is_builtin" in a:
                    fixed[a] = True
                elif a.endswith("BindgenOptions::builtins"):
                    fixed[a] = False
                elif "CXCursor_InclusionDirective" in a and " == " in a:
                    fixed[a] = True
            free = [a for a in atoms if a not in fixed]
            if not any("CXCursor_InclusionDirective" in a for a in fixed):
                continue
            passes = True
            for vals in itertools.product((False, True), repeat=len(free)):
                env = dict(zip(free, vals))
                env.update(fixed)
                if not c08._ev(f, env):
                    passes = False
                    break
            if passes:
                ok = True
                rep.note("forced includes", "inclusion directives pass `%s` whatever file they sit in" % p.split("::")[-1])
    rep.check(ok, "forced-include-is-a-dependency", "`-include` arguments found in clang_args are added to the dependency set" if ok else
              "`-include` is only recognised when the command line is WRITTEN (extra input headers) or to detect C++ (%s); an `-include` the user "
              "passes after `--` is never reported" % ", ".join(sorted({b.path.split("::")[-1] for b, _, _, _ in sites})), sites[0][0].loc(sites[0][1]))


# ---------------------------------------------------------------------------------------------------------
# R17.8  the reported path is the path libclang read
# ---------------------------------------------------------------------------------------------------------
IDENTITY_METHODS = {"clone", "to_owned", "to_string", "into", "into_boxed_str", "as_str", "as_ref", "borrow", "deref", "as_deref", "to_str", "into_string"}


def _pure_wrappers(b, n, ok_callees):
    """peel Some(..)/identity conversions/unsafe blocks/locals; returns the innermost expression"""
    seen = 0
    while seen < 20:
        seen += 1
        n = strip(n)
        k = n.get("k")
        if k == "Block" and not n.get("stmts") and n.get("tail") is not None:
            n = n["tail"]
        elif k == "Call" and (n.get("callee") or n.get("ctor_of") or "").endswith(("Some", "Ok")) and n.get("args"):
            n = n["args"][0]
        elif k == "MCall" and n["name"] in IDENTITY_METHODS:
            n = n["recv"]
        elif k in ("AddrOf", "Unary"):
            n = n["e"]
        elif k == "Local" and b.local_init(n["id"]) is not None and n["id"] not in b.local_assigned:
            n = b.local_init(n["id"])
        elif k == "Call" and (n.get("callee") or "") in ok_callees and n.get("args"):
            n = n["args"][0]
        else:
            return n
    return n


@RULES.rule("R17.8", "the name reported for an included file is the string libclang returned for it", floor=3)
def r17_8(rep):
    """clang names an included file the way it opened it (`./foo/../config.h` when `foo` is a symlink to somewhere else).  That
    spelling resolves to the file that was read; a textually "cleaned" one (`config.h`) may name a file that does not exist while the
    real one disappears from the depfile (seeded change).  From `clang_getFileName` to the `include_file` callbacks and `add_dep`
    only moves and conversions may touch the string (`cxstring_into_string`, `Some`, `into_boxed_str`, `&`, ..)."""
    prog = rep.prog
    g = rep.need(prog.fn("clang::Cursor::get_included_file_name"), "Cursor::get_included_file_name")
    rets = [n.get("e") for n in g.walk() if n["k"] == "Ret" and n.get("e") is not None]
    tail = g.root.get("tail")
    vals = []

    def leaves(e):
        e = strip(e)
        if e.get("k") == "If":
            leaves(e["then"])
            if "else" in e:
                leaves(e["else"])
        elif e.get("k") == "Match":
            for a in e["arms"]:
                leaves(a["body"])
        elif e.get("k") == "Block" and e.get("tail") is not None:
            leaves(e["tail"])
        else:
            vals.append(e)
    for e in rets + ([tail] if tail is not None else []):
        leaves(e)
    somes = [v for v in vals if "None" not in g.canon(v, 1).split("(")[0]]
    rep.need(somes, "the Some(..) result of get_included_file_name")
    for v in somes:
        inner = _pure_wrappers(g, v, {"clang::cxstring_into_string", "clang::cxstring_to_string_leaky"})
        ok = inner.get("k") == "Call" and (inner.get("callee") or "").endswith("clang_getFileName")
        rep.check(ok, "file-name-unchanged@get_included_file_name", "Some(cxstring_into_string(clang_getFileName(file)))" if ok else
                  "the string returned by `clang_getFileName` goes through `%s` before it is reported: a rewritten path need not name the "
                  "file clang read" % g.canon(inner, 2)[:80], g.loc(v))
    # consumers
    n = 0
    for p, b in sorted(prog.bodies.items()):
        gets = b.calls(lambda x: x["k"] == "MCall" and (x.get("callee") or x.get("resolved") or "").endswith("clang::Cursor::get_included_file_name"))
        if not gets:
            continue
        for c in b.calls(lambda x: x["k"] in ("Call", "MCall") and ((x.get("callee") or "").endswith(("BindgenContext::add_dep", "ParseCallbacks::include_file")) or
                                                                      x.get("name") == "include_file")):
            arg = c["args"][-1]
            src = b.canon(arg, 10)
            if "get_included_file_name" not in src:
                continue
            n += 1
            # only identity conversions between the call and the use
            bad = None
            x = strip(arg)
            hops = 0
            while hops < 20:
                hops += 1
                x = strip(x)
                if x.get("k") == "MCall" and x["name"] in IDENTITY_METHODS:
                    x = x["recv"]
                elif x.get("k") in ("AddrOf", "Unary"):
                    x = x["e"]
                elif x.get("k") == "Local":
                    d = b.local_def.get(x["id"])
                    if x["id"] in b.local_assigned:
                        bad = "a mutated local"
                        break
                    if d and d[0][0] == "let" and d[0][1].get("init") is not None:
                        x = d[0][1]["init"]
                    elif d and d[0][0] == "arm":
                        x = d[0][1]["scrut"]
                    elif d and d[0][0] == "letcond":
                        x = d[0][1]["init"]
                    else:
                        break
                elif x.get("k") == "MCall" and (x.get("callee") or x.get("resolved") or "").endswith("get_included_file_name"):
                    break
                else:
                    bad = b.canon(x, 3)[:80]
                    break
            who = (c.get("callee") or c.get("name") or "").split("::")[-1]
            rep.check(bad is None, "file-name-unchanged@%s:%s" % (p.split("::")[-1], who), "passed on as returned" if bad is None else
                      "the included file's name goes through `%s` before `%s` sees it" % (bad, who), b.loc(c))
    rep.need(n >= 2, "consumers of get_included_file_name (callback + add_dep)")


# ---------------------------------------------------------------------------------------------------------
# R17.9  the depfile does not depend on the fate of other side outputs
# ---------------------------------------------------------------------------------------------------------
def _short9(b):
    return b.path.split("::")[-1]


@RULES.rule("R17.9", "whenever bindings are generated and a depfile was asked for, the depfile write is attempted", floor=2)
def r17_9(rep):
    """The depfile is written on the way to the bindings (in `codegen::codegen`).  Nothing that can fail for an unrelated reason may
    stand between the start of that function and the write: with `?` on the graphviz dump in front of it, `--emit-ir-graphviz
    /no/such/dir/x.dot --depfile out.d` still produced bindings (exit 0) but left the previous run's `out.d` in place (seeded change).
    Per function on the call chain from `codegen::codegen` to `DepfileSpec::write`: the site is guarded by nothing but `depfile` being
    set, and no `?` / `return` of the same function lies before it."""
    prog = rep.prog
    sites = []
    for p, b in prog.bodies.items():
        for c in b.calls(lambda x: (x.get("callee") or x.get("resolved") or "").endswith("DepfileSpec::write")):
            sites.append((b, c))
    rep.need(sites, "the call of DepfileSpec::write")
    import c08
    idx = c08.call_index(prog)
    n = 0
    for b0, c0 in sites:
        chain = [(b0, c0)]
        seen = {b0.path}
        while chain[-1][0].path != "codegen::codegen" and len(chain) < 5:
            callers = [x for x in idx.get(chain[-1][0].path, []) if x[0].path not in seen]
            if len(callers) != 1:
                break
            chain.append(callers[0])
            seen.add(callers[0][0].path)
        rep.check(chain[-1][0].path == "codegen::codegen", "depfile-write-on-the-codegen-path", "reached from codegen::codegen through %s" %
                  " <- ".join(_short9(x[0]) for x in chain), b0.loc(c0))
        for b, c in chain:
            n += 1
            # the closure (or function) the site lives in
            scope = next((a for a in b.ancestors(c) if a["k"] == "Closure"), None)
            scope_nodes = list(b.walk(scope["body"])) if scope is not None else list(b.walk())
            before = [x for x in scope_nodes if x["k"] in ("Try", "Ret") and (x.get("s") or [0, 0, 0])[1:3] < (c.get("s") or c.get("ns"))[1:3]
                      and not any(a["k"] == "Closure" and a is not scope for a in b.ancestors(x) if scope is None or any(y is a for y in scope_nodes))]
            def only_depfile(g3):
                if g3[1] != "cond":
                    return False
                src = b.canon(g3[2], 10)
                others = [f for f in re.findall(r"BindgenOptions::(\w+)", src) if f != "depfile"]
                return "depfile" in src and not others
            gs = [g3 for g3 in b.guards(c, nested=True) if not only_depfile(g3)]
            if scope is not None:
                gs = [g3 for g3 in gs if g3 not in b.guards(scope, nested=True)]
            ok = not before and not gs
            what = []
            if before:
                what.append("`%s` at %s can leave first" % (b.canon(before[0], 3)[:60], b.loc(before[0])))
            if gs:
                what.append("guarded by `%s`" % (b.canon(gs[0][2], 4)[:60] if gs[0][1] == "cond" else gs[0][1]))
            rep.check(ok, "depfile-write-unconditional@%s" % _short9(b), "nothing fallible in front of it" if ok else
                      "the depfile write is not reached on every path (%s): bindings are still produced, the depfile is missing or stale"
                      % "; ".join(what), b.loc(c))
    rep.need(n >= 1, "functions between codegen::codegen and DepfileSpec::write")


@RULES.rule("R17.10", "the depfile names the configured target: `Builder::depfile` stores its argument unchanged", floor=2)
def r17_10(rep):
    """`make` compares the target of the rule with the name of the file it was asked to build.  `Builder::depfile(output_module, ..)`
    therefore has to keep `output_module` as given (escaping for make is `DepfileSpec::to_string`'s job, R17.3).  Rewriting it — turning
    `\\` into `/` "for Windows", unconditionally — names a different file on every platform where `\\` is an ordinary character
    (seeded change).  Both fields of the `DepfileSpec` literal are the setter's parameters after identity conversions only."""
    prog = rep.prog
    b = rep.need(next((x for p, x in prog.bodies.items() if p.endswith("Builder>::depfile") or p.endswith("Builder::depfile")), None), "Builder::depfile")
    lits = [n for n in b.nodes if n["k"] == "Struct" and n.get("adt") == SPEC]
    rep.need(lits, "the DepfileSpec literal in Builder::depfile")
    pids = {p_.get("id"): p_.get("name") for p_ in b.params}
    for lit in lits:
        for f in lit["fs"]:
            inner = _pure_wrappers(b, f["e"], set())
            ok = inner.get("k") == "Local" and inner.get("id") in pids
            rep.check(ok, "spec-field-unchanged:%s" % f["f"], "`%s` is parameter `%s`" % (f["f"], pids.get(inner.get("id"))) if ok else
                      "`DepfileSpec::%s` is `%s`, not the caller's value: the depfile then names (or is written to) another path than the "
                      "one that was configured" % (f["f"], b.canon(inner, 3)[:80]), b.loc(f["e"]))



@RULES.rule("R17.11", "an in-memory header (`Builder::header_contents`) is never reported as a file", floor=2)
def r17_11(rep):
    """`header_contents("virt.h", ..)` registers an unsaved file under `<cwd>/virt.h`.  libclang reports that name for the directive that
    includes it (the `-include` bindgen writes for it, or an `#include "virt.h"` in a real header); handing it to `include_file` / the
    depfile names a prerequisite that is not on disk (`make: No rule to make target`; cargo re-runs the build script for ever).
    In the InclusionDirective arm of `Item::parse`: every report of the included name is dominated by a test against
    `options.input_header_contents`."""
    prog = rep.prog
    b = rep.need(prog.fn("ir::item::Item::parse"), "ir::item::Item::parse")
    sinks = [c for c in b.calls(lambda x: x["k"] == "MCall" and x["name"] in ("add_dep", "include_file"))]
    rep.need(sinks, "the reports of an included file in Item::parse")
    for c in sinks:
        ok = False
        why = ""
        for pol, kind, g in b.guards(c, nested=True):
            if kind == "cond" and "input_header_contents" in b.canon(g, 10):
                ok = ok or not pol or "!" in b.canon(g, 3)[:3]
            if kind == "arm" and "get_included_file" in b.canon(g[0]["scrut"], 6):
                m, idx = g
                for a in m["arms"][:idx]:
                    gd = a.get("guard")
                    if gd is not None and "input_header_contents" in b.canon(gd, 10):
                        # the arm that takes the in-memory names away must not report them itself, and it is taken whenever the
                        # name is one of them (whatever else its guard tests)
                        import itertools
                        import c08
                        quiet = not any(x["k"] == "MCall" and x["name"] in ("add_dep", "include_file") for x in b.walk(a["body"]))
                        f = c08._formula(b, gd)
                        atoms = sorted(c08._atoms(f, set()))
                        fixed = {x: True for x in atoms if "input_header_contents" in x}
                        fixed.update({x: x.replace("'", "").lower().endswith("true") for x in atoms if x.replace("'", "").lower() in ("lit:true", "lit:false")})
                        free = [x for x in atoms if x not in fixed]
                        always = all(c08._ev(f, dict(zip(free, vals), **fixed)) for vals in itertools.product((False, True), repeat=len(free)))
                        ok = ok or (quiet and always)
        rep.check(ok, "in-memory-name-filtered:%s" % c["name"], "only reached for names that are not `header_contents` inputs" if ok else
                  "`%s` receives whatever libclang reports, also the made-up path of an in-memory header" % c["name"], b.loc(c))
