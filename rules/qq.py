"""quote!/parse_quote!/format_ident! call sites: tokens, guard chain, interpolated locals."""
from hir import macro_body_tokens, strip

QUOTE_MACROS = {"quote", "syn::parse_quote", "parse_quote", "quote_spanned"}


class QuoteSite:
    __slots__ = ("body", "site", "name", "root", "tokens", "text")

    def __init__(self, body, site, name, root):
        self.body = body
        self.site = site
        self.name = name
        self.root = root
        self.text = body.prog.text(site)
        self.tokens = macro_body_tokens(self.text)

    def has(self, *toks):
        """consecutive token subsequence test"""
        n = len(toks)
        t = self.tokens
        return any(tuple(t[i:i + n]) == tuple(toks) for i in range(len(t) - n + 1))

    def interp_names(self):
        return [t[1:] for t in self.tokens if t.startswith("#") and len(t) > 1]

    def interps(self):
        """name -> Local node of each interpolated variable (user tokens inside the expansion)."""
        out = {}
        b = self.body
        want = set(self.interp_names())
        for n in b.walk(self.root):
            if n["k"] == "Local" and n["name"] in want:
                out.setdefault(n["name"], n)
        return out

    def loc(self):
        return "%s:%d" % (self.body.prog.files[self.site[0]], self.site[1])

    def guards(self):
        return self.body.guards(self.root)


def quote_sites(body, names=QUOTE_MACROS):
    return [QuoteSite(body, site, nm, root) for site, nm, root in body.macro_roots(names)]


def guard_atoms(body, node):
    """Flatten the guard chain of node into (canon string, polarity, raw node) atoms that must all hold."""
    out = []
    for pol, kind, g in body.guards(node, nested=True):
        if kind == "cond":
            out += _atoms(body, g, pol)
        elif kind == "arm":
            m, i = g
            out.append(("arm:%s:%d" % (body.canon(m["scrut"], 4), i), True, m))
        elif kind == "letelse":
            out.append(("letelse:" + body.canon(g.get("init", {}), 4), True, g))
        elif kind == "notarm":
            m, i = g
            out.append(("arm:%s:%d" % (body.canon(m["scrut"], 4), i), False, m))
        elif kind == "notall":
            parts = []
            for p2, k2, g2 in g:
                if k2 == "cond":
                    parts.append(("" if p2 else "!") + body.canon(g2, 5))
                elif k2 == "arm":
                    parts.append("arm:%s:%d" % (body.canon(g2[0]["scrut"], 4), g2[1]))
                else:
                    parts.append(k2)
            out.append(("all(" + " && ".join(parts) + ")", False, g[0][2] if g[0][1] == "cond" else g[0][2][0]))
    return out


def _atoms(body, e, pol):
    e = strip(e)
    if e["k"] == "Unary" and e["op"] == "!":
        return _atoms(body, e["e"], not pol)
    if e["k"] == "Binary" and e["op"] == "&&" and pol:
        return _atoms(body, e["l"], True) + _atoms(body, e["r"], True)
    if e["k"] == "Binary" and e["op"] == "||" and not pol:
        return _atoms(body, e["l"], False) + _atoms(body, e["r"], False)
    if e["k"] == "Local":
        init = body.local_init(e["id"])
        if init is not None and strip(init)["k"] in ("Unary", "Binary", "MCall", "Call", "Field", "Local", "Lit"):
            return _atoms(body, init, pol)
    return [(body.canon(e, 6), pol, e)]


def has_atom(atoms, substr, pol):
    return any(substr in a and p == pol for a, p, _ in atoms)
