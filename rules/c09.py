"""C09 — allow-listing yields a self-contained, consistent subset of the bindings."""
import re

from engine import RuleSet
from hir import strip, pat_variants
import tracegraph as tg

RULES = RuleSet("C09", "§3 C09",
                not_decided=["minimality of the emitted subset and textual identity with the un-allowlisted output (relations between runs)",
                             "the semantics of the regular expressions themselves (regex crate)"])

CTX = "ir::context::BindgenContext"
OPTS = "options::BindgenOptions"
ITEMKIND = "ir::item_kind::ItemKind::"
TYPEKIND = tg.TYPEKIND
ID_TYPES = ("ir::context::ItemId", "ir::context::TypeId", "ir::context::FunctionId", "ir::context::VarId", "ir::context::ModuleId")

# id-typed storage that is deliberately NOT an outgoing edge (one reason each)
EDGE_EXCEPTIONS = {
    "ir::item::Item.id": "the item's own id",
    "ir::item::Item.parent_id": "upward (child -> parent) link; following it would allowlist whole scopes",
    "ir::module::Module.children": "module -> children edges are weak by design (see the comment in Item::trace): tracing them would allowlist everything",
    "ir::item_kind::ItemKind::Module.0": "modules have no strong outgoing edges (children are weak)",
    "ir::comp::CompInfo.template_params": "emitted through item.all_template_params(), which starts from self_template_params()",
}


def fmt_template(v):
    return re.sub(r"[\x00-\x1f]", "", v or "").replace("�", "{}")


def id_fields(prog):
    """(site, type, carries_ids_by_value) for fields of IR ADTs reachable from ir::item::Item."""
    seen, stack, out = set(), ["ir::item::Item"], []
    carrying = set()
    # first pass: reachable ADTs
    order = []
    while stack:
        a = stack.pop()
        if a in seen or a not in prog.adts:
            continue
        seen.add(a)
        order.append(a)
        for v in prog.adts[a]["variants"]:
            for f in v["fields"]:
                t = prog.types[f["ty"]]
                for other in prog.adts:
                    if other.startswith("ir::") and not other.startswith("ir::context::") and re.search(r"(?<![\w:])" + re.escape(other) + r"(?![\w])", t):
                        stack.append(other)
    # fixpoint: ADTs that contain ids (directly or by value through other ADTs)
    changed = True
    while changed:
        changed = False
        for a in order:
            if a in carrying:
                continue
            for v in prog.adts[a]["variants"]:
                for f in v["fields"]:
                    t = prog.types[f["ty"]]
                    if any(i in t for i in ID_TYPES) or any(re.search(r"(?<![\w:])" + re.escape(c) + r"(?![\w])", t) for c in carrying):
                        carrying.add(a)
                        changed = True
    for a in order:
        adt = prog.adts[a]
        for v in adt["variants"]:
            for f in v["fields"]:
                t = prog.types[f["ty"]]
                site = ("%s.%s" % (a, f["name"])) if adt["kind"] != "enum" else ("%s::%s.%s" % (a, v["name"], f["name"]))
                direct = any(i in t for i in ID_TYPES)
                embedded = any(re.search(r"(?<![\w:])" + re.escape(c) + r"(?![\w])", t) for c in carrying)
                if direct or embedded:
                    out.append((site, t, direct))
    return out


def touched_sites(prog, graph):
    """Every (Adt.field / Variant.idx) read inside a Trace impl or tracer-forwarding helper."""
    out = set()
    for p in graph.emitters:
        b = prog.bodies[p]
        for n in b.walk():
            if n["k"] == "Field" and "adt" in n:
                out.add("%s.%s" % (n["adt"], n["f"]))
            elif n["k"] == "MCall" and not n["args"]:
                a = tg.accessor_site(prog, tg.callee_of(n))
                if a:
                    out.update(a)
                # fields of `self` read by (nested) accessors
                todo, depth = [tg.callee_of(n)], 0
                while todo and depth < 3:
                    nxt = []
                    for cal in todo:
                        cb = prog.fn(cal)
                        if cb is None or len(cb.nodes) > 60:
                            continue
                        for x in cb.walk():
                            if x["k"] == "Field" and "adt" in x:
                                out.add("%s.%s" % (x["adt"], x["f"]))
                            elif x["k"] == "MCall" and not x["args"]:
                                nxt.append(tg.callee_of(x))
                    todo, depth = nxt, depth + 1
        for lid, (origin, path, pat) in b.local_def.items():
            for alt in b.local_alts.get(lid, [path]):
                for res, f in alt:
                    out.add("%s.%s" % (res, f))
    return out


@RULES.rule("R9.1", "every item id stored in the IR is an outgoing edge of a Trace impl", floor=30)
def r9_1(rep):
    prog = rep.prog
    graph = tg.TraceGraph(prog)
    rep.need(graph.emissions, "Tracer::visit_kind call sites")
    emitted = {s for es in graph.emissions.values() for e in es for s in e.sites}
    touched = touched_sites(prog, graph)
    fields = id_fields(prog)
    rep.need(fields, "id-typed fields of IR ADTs")
    for site, t, direct in fields:
        if site in EDGE_EXCEPTIONS:
            rep.ok("exception:" + site, EDGE_EXCEPTIONS[site])
            continue
        if direct:
            cov = any(s == site or s.startswith(site + "[") or s.startswith(site + ".") for s in emitted)
            rep.check(cov, "edge:" + site, "`%s: %s` holds an item id but no Trace impl emits it: an allowlisted item that refers to it "
                      "would name a type that is never generated" % (site, t))
        else:
            rep.check(site in touched, "embedded:" + site,
                      "`%s: %s` contains item ids by value but no Trace impl descends into it" % (site, t))
    # every emission is syntactically unconditional apart from opacity / kind dispatch: list the guards for the evidence
    rep.note("emission-sites", len(emitted))


@RULES.rule("R9.2", "allowlist roots are selected by the regex set of the item's own kind", floor=7)
def r9_2(rep):
    prog = rep.prog
    b = rep.need(prog.fn(CTX + "::compute_allowlisted_and_codegen_items"), "compute_allowlisted_and_codegen_items")
    want = {"Function": "allowlisted_functions", "Var": "allowlisted_vars", "Type": "allowlisted_types"}
    matches = [c for c in b.calls(lambda n: n["k"] == "MCall" and n["name"] == "matches" and "RegexSet" in (n.get("callee") or ""))]
    rep.need(matches, "RegexSet::matches calls")

    def set_of(c):
        r = strip(c["recv"])
        return r["f"] if r.get("k") == "Field" and r.get("adt") == OPTS else None

    def item_kinds(c):
        ks = None
        for pol, kind, payload in b.guards(c):
            if kind == "arm":
                m, i = payload
                vs = {v[len(ITEMKIND):] for v in pat_variants(m["arms"][i]["pat"]) if v.startswith(ITEMKIND)}
                if vs:
                    ks = vs if ks is None else ks & vs
        return ks

    seen = {}
    for c in matches:
        s = set_of(c)
        ks = item_kinds(c)
        seen.setdefault(s, []).append(ks)
    for kind, field in want.items():
        sites = seen.get(field, [])
        ok = any(ks == {kind} for ks in sites)
        rep.check(ok, "root:%s" % kind, "%s items are matched against `%s` (found under kinds %s)" % (kind, field, sites), b.loc(b.root))
        wrong = [ks for ks in sites if ks is not None and kind not in ks and not (field == "allowlisted_vars" and ks == {"Type"})]
        rep.check(not wrong, "root-only:%s" % field, "`%s` is consulted only for %s items (and for enum variants of anonymous enums)" % (field, kind), b.loc(b.root))
    any_kind = [ks for ks in seen.get("allowlisted_items", []) if ks is None]
    rep.check(bool(any_kind), "root:any-item", "`allowlisted_items` is matched before the per-kind dispatch, for every kind", b.loc(b.root))
    # the "nothing was allow-listed" shortcut must consider all five sets
    sets = {"allowlisted_types", "allowlisted_functions", "allowlisted_vars", "allowlisted_files", "allowlisted_items"}
    best = set()
    for n in b.walk():
        if n["k"] == "If":
            got = set()
            for c in b.calls(lambda x: x["k"] == "MCall" and x["name"] == "is_empty", n["cond"]):
                r = strip(c["recv"])
                if r.get("k") == "Field" and r.get("adt") == OPTS:
                    got.add(r["f"])
            if len(got) > len(best) and "&&" in b.canon(n["cond"], 8):
                best = got
    rep.check(best == sets, "nothing-allowlisted-test", "the everything-is-a-root shortcut requires all of %s to be empty (found %s)" % (sorted(sets), sorted(best)), b.loc(b.root))
    # files
    fm = [ks for ks in seen.get("allowlisted_files", [])]
    rep.check(bool(fm), "root:file", "`allowlisted_files` is matched against the item's file name", b.loc(b.root))


@RULES.rule("R9.3", "a blocklisted item is dropped by the allowlist traversal; both item sets come from it", floor=4)
def r9_3(rep):
    prog = rep.prog
    nb = None
    for b in prog.bodies.values():
        if b.fact.get("impl_trait") == "std::iter::Iterator" and "AllowlistedItemsTraversal" in (b.fact.get("impl_self") or "") and b.path.endswith("::next"):
            nb = b
    rep.need(nb, "impl Iterator for AllowlistedItemsTraversal")
    rets = [n for n in nb.walk() if n["k"] == "Ret" and "e" in n and "Some" in nb.canon(n["e"], 2)]
    tail = nb.root.get("tail")
    if tail is not None and "Some" in nb.canon(tail, 2) and strip(tail).get("k") == "Call":
        rets.append(tail)
    rep.check(bool(rets), "yield-site", "the traversal yields ids", nb.loc(nb.root))
    for r in rets:
        ok = False
        for pol, kind, g in nb.guards(r):
            if kind == "cond" and not pol and "Item::is_blocklisted" in nb.canon(g):
                ok = True
            if kind == "cond" and pol and "(!" in nb.canon(g) and "Item::is_blocklisted" in nb.canon(g):
                ok = True
        rep.check(ok, "skip-blocklisted", "an id is yielded only when its item is not blocklisted", nb.loc(r))
    b = rep.need(prog.fn(CTX + "::compute_allowlisted_and_codegen_items"), "compute_allowlisted_and_codegen_items")
    for field in ("allowlisted", "codegen_items"):
        src = None
        for n in b.walk():
            if n["k"] == "Assign" and strip(n["l"]).get("k") == "Field" and strip(n["l"]).get("adt") == CTX and strip(n["l"])["f"] == field:
                src = b.canon(n["r"], 10)
        rep.check(src is not None and "AllowlistedItemsTraversal" in src, "set:" + field,
                  "`%s` is collected from an AllowlistedItemsTraversal (%s)" % (field, (src or "")[:120]), b.loc(b.root))
    # predicates used
    preds = set()
    for c in b.calls(lambda n: n["k"] == "Call" and (n.get("callee") or "").endswith("AllowlistedItemsTraversal::<'ctx>::new")):
        preds.add(b.canon(c["args"][2], 4))
    rep.note("traversal-predicates", sorted(preds))
    rep.check(any("codegen_edges" in p for p in preds), "codegen-predicate", "codegen_items are traversed with traversal::codegen_edges", b.loc(b.root))


@RULES.rule("R9.4", "patterns are whole-name anchored and every regex set is built", floor=30)
def r9_4(rep):
    prog = rep.prog
    bi = None
    for b in prog.bodies.values():
        if "regex_set::RegexSet" in (b.fact.get("impl_self") or "") and any((c.get("callee") or "").startswith("regex::RegexSet::new") or
                                                                          "regex::RegexSet::new" in (c.get("callee") or "") for c in b.calls()):
            bi = b
    rep.need(bi, "the RegexSet method that calls regex::RegexSet::new")
    new = [c for c in bi.calls(lambda n: "regex::RegexSet::new" in (n.get("callee") or ""))][0]
    # the iterator fed to RxSet::new maps every item through a format! template
    templates = []
    for n in bi.walk():
        if n["k"] == "Lit" and bi.macro_name(n) == "format":
            templates.append(fmt_template(n.get("v")))
    rep.check(templates == ["^({})$"], "anchored-template", "every pattern is compiled as ^(pattern)$ (found %s)" % templates, bi.loc(new))
    src = bi.canon(new["args"][0], 8)
    rep.check("items" in src and "map" in src and not re.search(r"::(filter|skip|take|step_by)\(", src), "all-items-compiled",
              "all items of the set are compiled (%s)" % src[:100], bi.loc(new))
    # matches(): an unbuilt set matches nothing -> every RegexSet option must be built before use
    build = rep.need(prog.fn("<impl options::BindgenOptions>::build"), "BindgenOptions::build")
    adt = rep.need(prog.adts.get(OPTS), "struct BindgenOptions")
    built = set()
    for n in build.walk():
        if n["k"] == "AddrOf" and n.get("mut"):
            e = strip(n["e"])
            if e.get("k") == "Field" and e.get("adt") == OPTS:
                built.add(e["f"])
        if n["k"] == "MCall" and n["name"] in ("values_mut", "iter_mut"):
            e = strip(n["recv"])
            if e.get("k") == "Field" and e.get("adt") == OPTS:
                built.add(e["f"])
    nsets = 0
    for f in adt["variants"][0]["fields"]:
        t = prog.types[f["ty"]]
        if "regex_set::RegexSet" in t:
            nsets += 1
            rep.check(f["name"] in built, "built:" + f["name"], "`%s` is handed to RegexSet::build in BindgenOptions::build "
                      "(an unbuilt set silently matches nothing)" % f["name"], build.loc(build.root))
    # and the collected sets are really built: a loop over them calling build*/build_with_diagnostics
    calls = [c for c in build.calls(lambda n: n["k"] == "MCall" and "regex_set::RegexSet::build" in (n.get("callee") or ""))]
    in_loops = [c for c in calls if any(a["k"] == "For" for a in build.ancestors(c))]
    rep.check(bool(in_loops), "build-loop", "the collected sets are built in a loop (%d build calls)" % len(calls), build.loc(build.root))
    for c in in_loops:
        loop = [a for a in build.ancestors(c) if a["k"] == "For"][0]
        it = build.canon(loop["iter"], 10)
        rep.check("abi_overrides" in it or "regex_sets" in it or "values_mut" in it or "chain" in it, "build-loop-source",
                  "the build loop iterates the collected sets (%s)" % it[:100], build.loc(loop))
        rep.check(not [n for n in build.walk(loop["body"]) if n["k"] in ("Break", "Continue", "Ret")], "build-loop-complete",
                  "no early exit from the build loop", build.loc(loop))
    # the options are built before the context (which runs the allowlisting) is created
    gen = rep.need(prog.fn("Bindings::generate"), "Bindings::generate")
    calls = list(gen.calls())
    pos_build = [i for i, c in enumerate(calls) if (c.get("callee") or "").endswith("BindgenOptions>::build")]
    pos_ctx = [i for i, c in enumerate(calls) if (c.get("callee") or "") == "ir::context::BindgenContext::new"]
    rep.check(bool(pos_build) and bool(pos_ctx) and pos_build[0] < pos_ctx[0] and
              not [g for g in gen.guards(calls[pos_build[0]]) if g not in gen.guards(calls[pos_ctx[0]])],
              "build-before-context", "options.build() runs before BindgenContext::new on the same path", gen.loc(gen.root))


def lit_table(b, m, cond_field):
    """name literal -> 'always' | 'if <cond>' for the arms of a match on a string."""
    out = {}
    for a in m["arms"]:
        lits = [v[5:-1] for v in pat_variants(a["pat"]) if v.startswith("lit:'")]
        if not lits:
            continue
        cond = "always"
        if "guard" in a:
            cond = "if " + b.canon(a["guard"], 4).split("::")[-1]
        body = strip(a["body"])
        if body.get("k") == "Lit" and body.get("v") is False:
            continue
        if body.get("k") == "Field":
            cond = "if " + body["f"]
        for l in lits:
            out[l] = cond
    return out


@RULES.rule("R9.5", "sibling tables agree (stdint aliases; kinds without definitions)", floor=14)
def r9_5(rep):
    prog = rep.prog
    a = rep.need(prog.fn(CTX + "::is_stdint_type"), "is_stdint_type")
    t = rep.need(prog.fn("codegen::utils::type_from_named"), "type_from_named")
    ma = [n for n in a.walk() if n["k"] == "Match"]
    mt = [n for n in t.walk() if n["k"] == "Match"]
    rep.need(mt, "name match in type_from_named")
    tt = lit_table(t, mt[0], None)
    if ma:
        ta = lit_table(a, ma[0], None)
    else:
        # the same table written as data: `NAMES.contains(&name)` (possibly and-ed with a condition)
        ta = {}
        for c in a.calls(lambda n: n["k"] == "MCall" and n["name"] == "contains"):
            src = strip(c["recv"])
            if src.get("k") == "Path" and prog.fn(src.get("def", "")) is not None:
                cb = prog.fn(src["def"])
                arr = [x for x in cb.walk() if x["k"] == "Array"]
                lits = [strip(e).get("v") for e in (arr[0]["es"] if arr else [])]
            elif src.get("k") == "Array":
                lits = [strip(e).get("v") for e in src["es"]]
            else:
                continue
            conds = [a.canon(g, 4) for pol, kind, g in a.guards(c) if kind == "cond"]
            par = a.parent[c["_i"]]
            while par is not None and par["k"] in ("AddrOf", "Unary"):
                par = a.parent[par["_i"]]
            if par is not None and par["k"] == "Binary" and par["op"] == "&&":
                other = par["l"] if strip(par["r"]) is c or any(x is c for x in a.walk(par["r"])) else par["r"]
                o = strip(other)
                conds.append(o["f"] if o.get("k") == "Field" else a.canon(o, 4))
            for l in lits:
                if isinstance(l, str):
                    ta[l] = "always" if not conds else "if " + conds[-1].split("::")[-1]
        rep.need(ta, "the name table of is_stdint_type (a match on the name or a constant list with `contains`)")
    for name in sorted(set(ta) | set(tt)):
        rep.check(ta.get(name) == tt.get(name), "stdint:" + name,
                  "`%s`: treated as builtin %s by is_stdint_type (its typedef is then neither traced nor generated) but mapped to a "
                  "primitive %s by type_from_named" % (name, ta.get(name, "never"), tt.get(name, "never")), a.loc(ma[0] if ma else a.root))
    # kinds for which Type::codegen emits nothing  ==  kinds auto-allowlisted in non-recursive mode
    tc = rep.need(prog.impl_fn("codegen::CodeGenerator", "ir::ty::Type", "codegen"), "<Type as CodeGenerator>::codegen")
    nocode = None
    for m in tc.walk():
        if m["k"] == "Match" and "Type::kind" in tc.canon(m["scrut"], 3):
            for arm in m["arms"]:
                body = strip(arm["body"])
                real = [x for x in tc.walk(arm["body"]) if x["k"] in ("Call", "MCall") and not tc.macro_name(x)]
                if not real:
                    ks = {v[len(TYPEKIND):] for v in pat_variants(arm["pat"]) if v.startswith(TYPEKIND)}
                    if len(ks) > 3:
                        nocode = ks
            break
    rep.need(nocode, "the no-op arm of Type::codegen")
    cb = rep.need(prog.fn(CTX + "::compute_allowlisted_and_codegen_items"), "compute_allowlisted_and_codegen_items")
    auto = None
    for m in cb.walk():
        if m["k"] == "Match" and "Type::kind" in cb.canon(m["scrut"], 3):
            for arm in m["arms"]:
                ks = {v[len(TYPEKIND):] for v in pat_variants(arm["pat"]) if v.startswith(TYPEKIND)}
                if len(ks) > 3:
                    auto = ks
    rep.need(auto, "the auto-allowlist kind list")
    for k in sorted(nocode | auto):
        rep.check((k in nocode) == (k in auto), "nocodegen-kind:" + k,
                  "TypeKind::%s: %s by Type::codegen, %s in non-recursive allowlisting (the source asks for these lists to stay in sync)" %
                  (k, "no definition emitted" if k in nocode else "definition emitted", "auto-allowlisted" if k in auto else "not auto-allowlisted"),
                  cb.loc(cb.root))


EDGE_ORACLE = {
    "types": {"TemplateParameterDefinition", "TemplateArgument", "TemplateDeclaration", "BaseMember", "Field", "InnerType",
              "FunctionReturn", "FunctionParameter", "VarType", "TypeReference"},
    "vars": {"InnerVar"}, "methods": {"Method"}, "constructors": {"Constructor"}, "destructors": {"Destructor"},
}


@RULES.rule("R9.6", "codegen traversal follows each edge kind under the codegen switch of what the edge leads to", floor=17)
def r9_6(rep):
    prog = rep.prog
    b = rep.need(prog.fn("ir::traversal::codegen_edges"), "traversal::codegen_edges")
    ms = [n for n in b.walk() if n["k"] == "Match"]
    rep.need(ms, "match edge.kind")
    table = {}
    for a in ms[0]["arms"]:
        ks = {v[len(tg.EDGEKIND):] for v in pat_variants(a["pat"]) if v.startswith(tg.EDGEKIND)}
        body = strip(a["body"])
        what = (body.get("callee") or "").split("::")[-1] if body.get("k") in ("MCall", "Call") else body.get("k")
        for k in ks:
            table[k] = what
        if "_" in pat_variants(a["pat"]):
            for k in tg.all_edge_kinds(prog):
                table.setdefault(k, what)
    for sw, kinds in EDGE_ORACLE.items():
        for k in sorted(kinds):
            rep.check(table.get(k) == sw, "edge:" + k, "EdgeKind::%s leads to %s; it must be followed iff codegen_config.%s() "
                      "(found `%s`)" % (k, sw, sw, table.get(k)), b.loc(ms[0]))
    exits = [n for n in b.walk() if n["k"] == "Ret"]
    tail = strip(b.root.get("tail") or {})
    if tail.get("k") == "Local" and b.local_init(tail["id"]) is not None and tail["id"] not in b.local_assigned:
        tail = strip(b.local_init(tail["id"]))
    rep.check(not exits and tail is strip(ms[0]), "edge-predicate-is-the-table",
              "codegen_edges decides by the table alone" if not exits and tail is strip(ms[0]) else
              "codegen_edges has another way out than the per-kind table (%s): an edge refused here is refused for every item behind it; "
              "refusing edges into blocklisted items loses the template arguments of a blocklisted template's instantiation, which the "
              "bindings still name" % (", ".join(b.canon(strip(g), 4)[:80] for r_ in exits for pol, kind, g in b.guards(r_) if kind == "cond") or "the match is not the result"),
              b.loc(exits[0] if exits else b.root))
    rep.check(table.get("Generic") == "is_enabled_for_codegen", "edge:Generic",
              "generic edges are followed iff the target is enabled for codegen (found `%s`)" % table.get("Generic"), b.loc(ms[0]))
    allb = rep.need(prog.fn("ir::traversal::all_edges"), "traversal::all_edges")
    t = strip(allb.root.get("tail") or {})
    rep.check(t.get("k") == "Lit" and t.get("v") is True, "all-edges-true", "all_edges accepts every edge", allb.loc(allb.root))


@RULES.rule("R9.7", "the item traversal visits everything reachable: roots queued, every popped item traced, every accepted new edge queued", floor=8)
def r9_7(rep):
    """The transitive closure is computed by ItemTraversal: `new` seeds the queue with every root, `next` traces every
    item it pops and yields it, and the Tracer impl queues every item that passes the predicate and was not seen.
    Breaks: tracing only when `currently_traversing` is none, or pushing to the queue only for some edge kinds, leaves
    transitively needed types out of the allowlisted set (the output no longer compiles on its own)."""
    prog = rep.prog
    IT = "ir::traversal::ItemTraversal"
    nb = nxt = vk = None
    for p, b in prog.bodies.items():
        s = b.fact.get("impl_self") or ""
        if not s.startswith(IT):
            continue
        if b.fact.get("impl_trait") == "std::iter::Iterator" and p.endswith("::next"):
            nxt = b
        elif b.fact.get("impl_trait") == tg.TRACER and p.endswith("::visit_kind"):
            vk = b
        elif b.fact.get("impl_trait") is None and p.endswith("::new"):
            nb = b
    rep.need(nb and nxt and vk, "ItemTraversal::{new, next} and its Tracer impl")
    # new: every root is marked seen and queued
    loops = [n for n in nb.walk() if n["k"] == "For" and "param:roots" in nb.canon(n["iter"], 4)]
    if rep.check(len(loops) == 1, "new:roots-loop", "one loop over the roots", nb.loc(nb.root)):
        lp = loops[0]
        pushes = [c for c in nb.calls(lambda n: n["k"] == "MCall" and n["name"] in ("push", "push_back"), lp["body"])]
        adds = [c for c in nb.calls(lambda n: n["k"] == "MCall" and n["name"] == "add", lp["body"])]
        rep.check(len(pushes) == 1 and not [g for g in nb.guards(pushes[0]) if g not in nb.guards(lp)] and
                  strip(pushes[0]["args"][0]).get("id") == lp["pat"].get("id"), "new:every-root-queued", "every root is pushed onto the queue", nb.loc(lp))
        rep.check(len(adds) == 1 and not [g for g in nb.guards(adds[0]) if g not in nb.guards(lp)], "new:every-root-seen", "every root is marked as seen", nb.loc(lp))
        rep.check(not re.search(r"::(skip|take|filter|step_by)\(", nb.canon(lp["iter"], 6)), "new:all-roots", "the loop covers all roots", nb.loc(lp))
    # next: pops, traces unconditionally, yields the popped id
    traces = [c for c in nxt.calls(lambda n: n["k"] == "MCall" and n.get("trait") == tg.TRACE_TRAIT)]
    if rep.check(len(traces) == 1, "next:traces", "one Trace::trace call in next()", nxt.loc(nxt.root)):
        t = traces[0]
        src = nxt.canon(t["recv"], 6)
        guards = [a for a, p, n in __import__("qq").guard_atoms(nxt, t) if "debug_assert" not in a]
        only_pop = all("queue" in a or "TraversalQueue::next" in a for a in guards)
        rep.check("TraversalQueue::next" in src or "queue" in src, "next:traces-popped-item", "the traced item is the one popped from the queue (%s)" % src[:80], nxt.loc(t))
        rep.check(only_pop, "next:trace-unconditional", "every popped item is traced (conditions: %s)" % guards, nxt.loc(t))
        rep.check(strip(t["args"][1]).get("name") == "self" if len(t["args"]) > 1 else False, "next:traces-into-self", "edges are reported to this traversal", nxt.loc(t))
        tail = strip(nxt.root.get("tail") or {})
        rep.check(tail.get("k") == "Call" and (tail.get("ctor") or "").endswith("Some") and nxt.canon(tail["args"][0], 6) == src, "next:yields-popped-item",
                  "next() yields the popped item", nxt.loc(nxt.root))
    # visit_kind: predicate gate, then queue iff newly seen
    pushes = [c for c in vk.calls(lambda n: n["k"] == "MCall" and n["name"] in ("push", "push_back"))]
    if rep.check(len(pushes) == 1, "visit:queues", "one queue push in visit_kind", vk.loc(vk.root)):
        c = pushes[0]
        atoms = __import__("qq").guard_atoms(vk, c)
        pred = [a for a, p, n in atoms if "predicate" in a and p]
        seen = [a for a, p, n in atoms if "TraversalStorage::add" in a and p]
        rep.check(len(atoms) == 2 and len(pred) == 1 and len(seen) == 1, "visit:queue-iff-accepted-and-new",
                  "an edge target is queued exactly when the predicate accepts the edge and the item was not seen before (conditions: %s)" %
                  [(a[:60], p) for a, p, n in atoms], vk.loc(c))
        rep.check(strip(c["args"][0]).get("name") == vk.params[1].get("name") if len(vk.params) > 1 else False, "visit:queues-target", "the queued item is the edge target", vk.loc(c))
        edge = [x for x in vk.calls(lambda n: n["k"] == "Call" and (n.get("callee") or "").endswith("Edge::new"))]
        rep.check(bool(edge) and [strip(a).get("name") for a in edge[0]["args"]] == [p.get("name") for p in vk.params[1:3]], "visit:edge-passed-to-predicate",
                  "the predicate sees (target, kind) of this very edge", vk.loc(vk.root))


# kinds that never get a definition of their own, have outgoing edges, and may be left out of the unconditional set (with reason)
UNCOND_EXEMPT = {"Vector": "vector elements are arithmetic builtins, which need no definition"}


@RULES.rule("R9.8", "types that are always spelled out (no definition of their own) are traced even when matched by an opaque pattern", floor=5)
def r9_8(rep):
    """An array, pointer, reference, function type or resolved type ref is never emitted as an item: every use spells it out
    (`[Elem; 4]`, `*mut Elem`).  `--opaque-type '.*'` also matches their synthetic names; if `Item::trace` stopped there the element
    type would be named but never generated.  `Type::should_be_traced_unconditionally` must therefore contain every kind for which
    `Type::codegen` emits nothing and `Type::trace` has an edge."""
    prog = rep.prog
    graph = tg.TraceGraph(prog)
    rep.need(graph.uncond, "Type::should_be_traced_unconditionally")
    tc = rep.need(prog.impl_fn("codegen::CodeGenerator", "ir::ty::Type", "codegen"), "<Type as CodeGenerator>::codegen")
    nocode = None
    for m in tc.walk():
        if m["k"] == "Match" and "Type::kind" in tc.canon(m["scrut"], 3):
            for arm in m["arms"]:
                real = [x for x in tc.walk(arm["body"]) if x["k"] in ("Call", "MCall") and not tc.macro_name(x)]
                ks = {v[len(TYPEKIND):] for v in pat_variants(arm["pat"]) if v.startswith(TYPEKIND)}
                if not real and len(ks) > 3:
                    nocode = ks
            break
    rep.need(nocode, "the no-op arm of Type::codegen")
    tt = rep.need(prog.impl_fn(tg.TRACE_TRAIT, "ir::ty::Type", "trace"), "<Type as Trace>::trace")
    with_edges = set()
    for m in tt.walk():
        if m["k"] == "Match" and "Type::kind" in tt.canon(m["scrut"], 3):
            for arm in m["arms"]:
                calls = [x for x in tt.walk(arm["body"]) if x["k"] == "MCall" and (x.get("trait") in (tg.TRACER, tg.TRACE_TRAIT))]
                if calls:
                    with_edges |= {v[len(TYPEKIND):] for v in pat_variants(arm["pat"]) if v.startswith(TYPEKIND)}
            break
    rep.need(with_edges, "arms of Type::trace that emit edges")
    for k in sorted(nocode & with_edges):
        if k in UNCOND_EXEMPT:
            rep.ok("spelled-out-kind-traced:%s" % k, "exempt: " + UNCOND_EXEMPT[k])
            continue
        rep.check(k in graph.uncond, "spelled-out-kind-traced:%s" % k,
                  "TypeKind::%s is never defined as an item and is spelled through to its inner type, so it must be traced even when "
                  "an opaque pattern matches it (should_be_traced_unconditionally lacks it)" % k, tt.loc(tt.root))
    rep.note("traced-unconditionally", sorted(graph.uncond))


@RULES.rule("R9.9", "an unnamed enum is a root through its variants wherever it sits in a module; no other condition", floor=3)
def r9_9(rep):
    """`--allowlist-var 'ns::NS_A'` selects the unnamed enum that declares NS_A.  The only requirements are: the item is an enum,
    it has no name, and its parent is a module.  Replacing the parent test by `is_toplevel` (a codegen notion that is false inside
    non-root modules with --enable-cxx-namespaces) silently drops such roots."""
    prog = rep.prog
    b = rep.need(prog.fn(CTX + "::compute_allowlisted_and_codegen_items"), "compute_allowlisted_and_codegen_items")
    anys = [c for c in b.calls(lambda n: n["k"] == "MCall" and n["name"] == "any") if "Enum::variants" in b.canon(c["recv"], 6)]
    if not rep.check(len(anys) == 1, "variant-scan", "one scan over the variants of an unnamed enum (found %d)" % len(anys), b.loc(b.root)):
        return
    import qq
    ALLOWED = ("allowlisted_", "allowlist_recursively", "Item::is_module", "TypeKind::Enum", "Type::name", "is_stdint_type", "arm:",
               "Annotations::use_instead_of", "is_enabled_for_codegen", "RegexSet::matches", "RegexSet::is_empty", "let ")
    extra = []
    def from_assert(node):
        nodes = [node] + list(b.ancestors(node)) if isinstance(node, dict) and "_i" in node else []
        return any(b.macro_name(x) in ("assert", "assert_eq", "assert_ne", "debug_assert", "debug_assert_eq") for x in nodes)

    for a, pol, node in qq.guard_atoms(b, anys[0]):
        if a.startswith("letelse:") or from_assert(node):
            continue
        if not any(x in a for x in ALLOWED):
            extra.append(("" if pol else "!") + a[:90])
    rep.check(not extra, "unnamed-enum-root:no-extra-condition", "conditions other than enum / unnamed / parent-is-a-module: %s" % extra, b.loc(anys[0]))
    pos = [a for a, pol, node in qq.guard_atoms(b, anys[0]) if "Item::is_module" in a and pol]
    rep.check(bool(pos), "unnamed-enum-root:parent-is-module", "the parent of the enum must be a module (any module)", b.loc(anys[0]))


COMPUTED_EDGE_OK = {
    ("CompInfo::trace", "call:ir::template::TemplateParameters::all_template_params[]"):
        "the template parameters of a class are not stored in CompInfo; they are looked up through the item, and are ids of declared "
        "TypeParam items (nothing is resolved away)",
}


@RULES.rule("R9.10", "edges lead to the ids that are stored (and later spelled), never to what they resolve to", floor=22)
def r9_10(rep):
    """The traversal decides which items are generated; codegen then spells the STORED ids (`bf.ty()` -> `flags_t`).  An edge that
    targets `id.into_resolver().through_type_refs().through_type_aliases().resolve(ctx)` instead of the id skips every typedef in
    between: with `--allowlist-type S`, `struct S { flags_t f : 3; }` still says `fn f(&self) -> flags_t` but `flags_t` is never
    emitted."""
    import tracegraph as tg
    prog = rep.prog
    g = tg.TraceGraph(prog)
    n = 0
    seen_keys = {}
    for p, ems in sorted(g.emissions.items()):
        fn = re.sub(r"^<(.+?) as .+?>::", lambda m: m.group(1).split("::")[-1] + "::", p)
        fn = "::".join(fn.split("::")[-2:])
        for e in ems:
            n += 1
            computed = [s for s in e.sites if s.startswith("call:")]
            key = "edge-target:%s:%s" % (fn, e.kind)
            seen_keys[key] = seen_keys.get(key, 0) + 1
            if seen_keys[key] > 1:
                key += "#%d" % seen_keys[key]
            if not computed:
                rep.ok(key, "stored id(s): %s" % ", ".join(x.split("::")[-1] for x in e.sites)[:100], e.body.loc(e.node))
                continue
            why = [COMPUTED_EDGE_OK.get((fn, s)) for s in computed]
            if all(why):
                rep.ok(key, "exempt: " + why[0], e.body.loc(e.node))
            else:
                rep.bad(key, "the edge targets a computed id (%s): items between the stored id and that result are never reached, although "
                        "codegen spells the stored id" % ", ".join(c[5:].split("::")[-1] for c in computed), e.body.loc(e.node))
    rep.need(n >= 22, "edge emissions in Trace impls")


@RULES.rule("R9.11", "which edges a Trace impl emits does not depend on generation options", floor=22)
def r9_11(rep):
    """Trace describes what an item refers to; which references matter for code generation is decided afterwards, per edge kind, by
    `codegen_edges` (R9.6).  An edge left out in Trace because of an option is missing for EVERY consumer — also for the ones that
    spell the target anyway: skipping pure virtual methods "because no function is generated for them" lost the parameter types that
    `Vtable::codegen` writes into `Foo__bindgen_vtable` (seeded change; E0425 under --vtable-generation with an allowlist).
    Per visit / visit_kind site in an `impl Trace`: no condition on its path reads the options."""
    prog = rep.prog
    import qq
    n = 0
    for p, b in sorted(prog.bodies.items()):
        if not (b.fact.get("impl_trait") or "").endswith("traversal::Trace"):
            continue
        who = (b.fact.get("impl_self") or "").split("::")[-1]
        per = {}
        for c in b.calls(lambda x: x["k"] == "MCall" and x["name"] in ("visit", "visit_kind")):
            n += 1
            edge = b.canon(c["args"][-1], 2).split("::")[-1] if c["name"] == "visit_kind" else "visit"
            k = per.get(edge, 0)
            per[edge] = k + 1
            key = "option-free-edge:%s::%s%s" % (who, edge, "#%d" % k if k else "")
            bad = []
            for pol, kind, g in b.guards(c, nested=True):
                srcs = []
                if kind == "cond":
                    srcs.append(b.canon(g, 10))
                    for x in b.walk(g):
                        if x["k"] == "Local" and b.local_init(x["id"]) is not None:
                            srcs.append(b.canon(b.local_init(x["id"]), 10))
                elif kind == "arm":
                    srcs.append(b.canon(g[0]["scrut"], 10))
                if any("BindgenContext::options" in s_ or "BindgenOptions::" in s_ for s_ in srcs):
                    bad.append((srcs[0][:120], g if kind == "cond" else g[0]))
            rep.check(not bad, key, "emitted whatever the options are" if not bad else
                      "this edge is only emitted when `%s` allows it: a consumer that spells the target anyway (vtable, layout, derive "
                      "analyses) no longer sees it" % bad[0][0], b.loc(bad[0][1] if bad else c))
    rep.need(n >= 22, "visit / visit_kind sites in Trace impls")


SWITCH_OF_METHOD_EDGES = ("CodegenConfig::methods", "CodegenConfig::constructors", "CodegenConfig::destructors")


@RULES.rule("R9.12", "codegen spells a method's signature only where the edges to methods were followed", floor=2)
def r9_12(rep):
    """`codegen_edges` follows Method / Constructor / Destructor edges iff the matching `codegen_config` switch is on (R9.6); only
    then are the parameter and return types of a method part of the closure.  Every place in codegen that resolves
    `Method::signature()` to write those types must therefore run under one of these switches (in its own guards, or at every one of
    its call sites)."""
    import c08
    prog = rep.prog
    idx = c08.call_index(prog)

    def mentions(b, node):
        for pol, kind, g in b.guards(node, nested=True):
            if kind == "cond" and pol:
                s = b.canon(g, 10)
                if any(w in s for w in SWITCH_OF_METHOD_EDGES):
                    return True
        return False
    n = 0
    for p, b in sorted(prog.bodies.items()):
        if "codegen" not in p.split("::")[0] and not p.startswith("<codegen"):
            continue
        sites = b.calls(lambda x: x["k"] == "MCall" and (x.get("callee") or x.get("resolved") or "").endswith("comp::Method::signature"))
        if not sites:
            continue
        who = (b.fact.get("impl_self") or "").split("::")[-1]
        who = re.sub(r"<.*", "", who)
        fn = (who + "::" if who else "") + p.split("::")[-1]
        for c in sites:
            n += 1
            ok = mentions(b, c)
            how = "guarded at the site"
            if not ok:
                callers = list(idx.get(b.path, []))
                ti = b.fact.get("trait_item")
                if ti:
                    callers += [x for x in idx.get(ti, []) if x not in callers]
                ok = bool(callers) and all(mentions(kb, kc) for kb, kc in callers) and not b.fact.get("trait_item")
                how = "every one of its %d call sites is under the switch" % len(callers)
            rep.check(ok, "method-signature-spelled-under-switch@" + fn, how if ok else
                      "the method's parameter / return types are written here although the edges to methods are only followed under "
                      "`codegen_config.methods()`: with `--ignore-methods` (or `--generate types`) and an allowlist the types named by the "
                      "emitted signature are not part of the bindings", b.loc(c))
    rep.need(n >= 2, "codegen sites that resolve Method::signature()")


@RULES.rule("R9.13", "the blocklist verdict is computed for each item from the pattern set of its own kind", floor=12)
def r9_13(rep):
    """`struct stat` and `stat()` share the name `stat`; `--blocklist-function stat` must hide the function and only the function.
    `Item::is_blocklisted` therefore dispatches on the item's kind.  The per-kind `matches` calls must be evaluated for the item that
    is asked about: wrapped into a closure handed to a crate-local function they can be cached under a key that forgets the kind (a
    seeded change memoised the verdict by name; the first item of a name then decided for all kinds)."""
    prog = rep.prog
    b = rep.need(prog.fn("ir::item::Item::is_blocklisted"), "Item::is_blocklisted")
    want = {"Type": "blocklisted_types", "Function": "blocklisted_functions", "Var": "blocklisted_vars"}
    matches = [c for c in b.calls(lambda n: n["k"] == "MCall" and n["name"] == "matches" and "RegexSet" in (n.get("callee") or ""))]
    rep.need(len(matches) >= 5, "RegexSet::matches calls in Item::is_blocklisted")

    def set_of(c):
        r = strip(c["recv"])
        return r["f"] if r.get("k") == "Field" and r.get("adt") == OPTS else None

    def item_kinds(c):
        ks = None
        for pol, kind, payload in b.guards(c):
            if kind == "arm":
                m, i = payload
                sc = b.canon(m["scrut"], 4)
                vs = {v[len(ITEMKIND):] for v in pat_variants(m["arms"][i]["pat"]) if v.startswith(ITEMKIND)}
                if vs and "param:self" in sc:
                    ks = vs if ks is None else ks & vs
        return ks
    seen = {}
    for c in matches:
        seen.setdefault(set_of(c), []).append((item_kinds(c), c))
    for kind, field in want.items():
        sites = seen.get(field, [])
        rep.check(any(ks == {kind} for ks, _ in sites), "blocklist:%s" % kind,
                  "%s items are matched against `%s` (found under kinds %s)" % (kind, field, [ks for ks, _ in sites]), b.loc(b.root))
        wrong = [ks for ks, _ in sites if ks != {kind}]
        rep.check(not wrong, "blocklist-only:%s" % field, "`%s` is consulted for %s items only (found %s)" % (field, kind, wrong), b.loc(b.root))
    rep.check(any(ks is None for ks, _ in seen.get("blocklisted_items", [])), "blocklist:any-item",
              "`blocklisted_items` is matched for every kind", b.loc(b.root))
    for c in matches:
        clo = [a for a in b.ancestors(c) if a["k"] == "Closure"]
        bad = None
        for cl in clo:
            p = b.parent[cl["_i"]]
            while p is not None and p["k"] not in ("Call", "MCall"):
                p = b.parent[p["_i"]]
            cal = (p.get("resolved") or p.get("callee") or "") if p is not None else ""
            if not cal.startswith(("std::", "core::", "alloc::")):
                bad = cal or "?"
        rep.check(bad is None, "verdict-per-item:%s" % set_of(c), "evaluated for the item itself" if bad is None else
                  "the match against `%s` is wrapped in a closure given to `%s`: whether and for which item it runs is decided there "
                  "(a cache keyed by name alone merges a type and a function of the same name)" % (set_of(c), bad), b.loc(c))


@RULES.rule("R9.14", "every declaration of a function becomes an item: parsing does not remember what it has seen", floor=5)
def r9_14(rep):
    """`--allowlist-file` / `--blocklist-file` select by the location of each item.  A function declared in `internal.h` and again in
    `public.h` has two items; the one in `public.h` is what `--allowlist-file '.*public\\.h'` finds (code generation drops the duplicate
    symbol later).  Giving an item to the first declaration only ("the others are filtered out anyway") loses the function for the
    allowlisted file (seeded change).  Every early `return Err(..)` of `Function::parse` must depend on the cursor and the options
    only: no guard may go through a `&mut` method of the context or read one of its `parsed_*` / seen sets."""
    import qq
    prog = rep.prog
    b = rep.need(prog.impl_fn("parse::ClangSubItemParser", "ir::function::Function", "parse"), "<Function as ClangSubItemParser>::parse")
    ctxp = next((p_ for p_ in b.params if "BindgenContext" in (prog.types[p_["t"]] if p_.get("t") is not None else "")), None)
    rep.need(ctxp, "the context parameter of Function::parse")
    n = 0
    for r in b.walk():
        if r["k"] != "Ret" or "Err" not in b.canon(r.get("e") or {}, 2):
            continue
        n += 1
        bad = []
        for a, pol, g in qq.guard_atoms(b, r):
            for x in b.walk(g) if isinstance(g, dict) else []:
                if x["k"] == "MCall" and strip(x["recv"]).get("k") == "Local" and strip(x["recv"]).get("id") == ctxp.get("id"):
                    cal = x.get("resolved") or x.get("callee") or ""
                    cb = prog.bodies.get(cal)
                    mut_self = cb is not None and cb.params and "&mut" in (prog.types[cb.params[0]["t"]] if cb.params[0].get("t") is not None else "")
                    if mut_self or "parsed_" in cal or "seen" in cal:
                        bad.append(cal.split("::")[-1])
                if x["k"] == "Field" and x.get("adt") == CTX and ("parsed" in x["f"] or "seen" in x["f"]):
                    bad.append("self." + x["f"])
        rep.check(not bad, "exit-depends-on-cursor-only@L%d" % n, "guards read the cursor and the options" if not bad else
                  "this early exit depends on `%s`, i.e. on which declarations were parsed before: a later declaration of the same function "
                  "(the one inside the allowlisted file) gets no item" % ", ".join(bad), b.loc(r))
    rep.need(n >= 5, "early `return Err(..)` exits of Function::parse")


# (impl, substring of the atom, polarity, reason) — tests on the path to an edge that are NOT "this is the kind" / "the target exists"
TRACE_EDGE_CONDITIONS = [
    ("Type", "Option::<T>::is_some_and(param:self.ir::ty::Type::name", False,
     "compiler builtins (`__builtin_va_list`, `__va_list_tag`, ..) are spelled by name and never followed"),
    ("Item", "Type::should_be_traced_unconditionally", None, "delegation to the type's own Trace: R9.3 / R10.x decide the opaque cut"),
    ("Item", "Item::is_opaque", None, "same disjunction"),
]


@RULES.rule("R9.15", "an edge exists whenever its target does: nothing about the item's VALUE decides whether a Trace impl emits it", floor=31)
def r9_15(rep):
    """Trace is the dependency relation every consumer shares (allowlist closure, derive analyses, template usage).  A site may sit
    under the dispatch on the item's own kind and under `if let Some(target)`; any other test makes the relation depend on data that
    says nothing about what the item refers to.  Seeded change: `ItemKind::Var` emitted its `VarType` edge only for variables without
    an evaluated initialiser — `const size_type N = 4;` was emitted as `pub const N: size_type = 4` with `size_type` left out of the
    allowlisted output (E0412).  Frozen exceptions: TRACE_EDGE_CONDITIONS."""
    import qq
    prog = rep.prog
    n = 0
    for p, b in sorted(prog.bodies.items()):
        if not (b.fact.get("impl_trait") or "").endswith("traversal::Trace"):
            continue
        who = (b.fact.get("impl_self") or "").split("::")[-1]
        per = {}
        sites = b.calls(lambda x: x["k"] == "MCall" and x["name"] in ("visit", "visit_kind", "trace"))
        for c in sites:
            n += 1
            edge = "delegate" if c["name"] == "trace" else (b.canon(c["args"][-1], 2).split("::")[-1] if c["name"] == "visit_kind" else "visit")
            k = per.get(edge, 0)
            per[edge] = k + 1
            key = "edge-whenever-target-exists:%s::%s%s" % (who, edge, "#%d" % k if k else "")
            bad = []
            for a, pol, g in qq.guard_atoms(b, c):
                if a.startswith("arm:") and "param:self" in a:
                    continue            # dispatch on the item's own kind / variant
                if a.startswith("let ") and pol and "Some(" in a.split("=")[0] and "param:self" in a.split("=", 1)[1]:
                    continue            # the optional target exists
                if a.startswith("let ") and pol and "Some(" in a.split("=")[0] and "match(param:self" in a.split("=", 1)[1]:
                    continue
                if any(w == who and sub in a and (wpol is None or wpol == pol) for w, sub, wpol, _ in TRACE_EDGE_CONDITIONS):
                    continue
                bad.append(a[:110] if pol else "!(%s)" % a[:110])
            rep.check(not bad, key, "under kind dispatch / target-exists only" if not bad else
                      "this edge is only emitted when `%s`: consumers of the dependency relation (allowlist closure, derive and template "
                      "analyses) lose the target for every other item of the kind" % "; ".join(bad)[:260], b.loc(c))
    rep.need(n >= 22, "visit / visit_kind / delegating trace sites in Trace impls")


@RULES.rule("R9.16", "a pattern given for one kind lands in that kind's regex set and is written back under that kind's flag (shared with C13 R13.5)",
            floor=10, configs=("cli",))
def r9_16(rep):
    """`Item::is_blocklisted` / root selection read one RegexSet per kind.  The builder setters are eight near-identical blocks of the
    `options!` table; `blocklist_function` inserting into `blocklisted_items` (seeded change) makes `--blocklist-function stat` drop
    `struct stat` as well, which `fstat(int, struct stat *)` — allowlisted — needs.  The instances of R13.5 for the allowlist /
    blocklist fields: what the setter reached through `--<kind flag>` stores is what `as_args` of that same field writes."""
    from engine import KeyFilter
    import c13
    c13.r13_5(KeyFilter(rep, lambda k: "allowlisted_" in k or "blocklisted_" in k))


@RULES.rule("R9.17", "the name a pattern is matched against is the declaration's C/C++ name", floor=2)
def r9_17(rep):
    """`path_for_allowlisting` is `compute_path(ctx, UserMangled::No)`: the name without what the user's `item_name` callback does to
    it.  Whatever else `real_canonical_name` does to the name is also done to the matched string: it ends in `ctx.rust_mangle(..)`
    unconditionally, so `int match;` is only reached by `--allowlist-var match_`, and it prepends the `--c-naming` prefix, so
    `struct foo` needs `--allowlist-type struct_foo`.  Per rewriting step of `real_canonical_name` (rust_mangle, the c_naming prefix,
    the callback): it sits under a test of `opt.user_mangled`, i.e. it is not applied to the allowlisting name."""
    import qq
    prog = rep.prog
    b = rep.need(prog.fn("ir::item::Item::real_canonical_name"), "fn Item::real_canonical_name")
    steps = []
    for c in b.calls(lambda x: x["k"] == "MCall"):
        cal = (c.get("resolved") or c.get("callee") or "")
        if cal.endswith("BindgenContext::rust_mangle"):
            steps.append(("rust_mangle", c))
        elif c["name"] == "insert" and "c_naming_prefix" in " ".join(b.canon(b.local_init(x["id"]), 6) if x["k"] == "Local" and b.local_init(x["id"]) is not None
                                                                    else b.canon(x, 4) for x in b.walk(c)) + " ".join(a for a, _, _ in qq.guard_atoms(b, c)):
            steps.append(("c_naming-prefix", c))
        elif cal.endswith("ParseCallbacks::item_name") or c["name"] == "item_name":
            steps.append(("item_name-callback", c))
    seen = {s for s, _ in steps}
    rep.need({"rust_mangle", "item_name-callback"} <= seen, "the rewriting steps of real_canonical_name (found %s)" % sorted(seen))
    for nm, c in steps:
        # the callback sits inside a closure: take the guards of the enclosing closure expression as well
        import itertools
        import c08
        f = c08._reach(b, c)
        for anc in b.ancestors(c):
            if anc["k"] == "Closure":
                f = ("and", f, c08._reach(b, anc))
        atoms = sorted(c08._atoms(f, set()))

        def under_no(a):
            """truth of an atom about `user_mangled` when the allowlisting name (UserMangled::No) is computed"""
            if "user_mangled" not in a or ("==" not in a and "!=" not in a):
                return None
            yes = "UserMangled::Yes" in a
            no = "UserMangled::No" in a
            if yes == no:
                return None
            v = no
            return v if "==" in a else not v
        fixed = {a: under_no(a) for a in atoms if under_no(a) is not None}
        free = [a for a in atoms if a not in fixed]
        ok = bool(fixed)
        if ok:
            for vals in itertools.product((False, True), repeat=len(free)):
                env = dict(zip(free, vals))
                env.update(fixed)
                if c08._ev(f, env):
                    ok = False
                    break
        rep.check(ok, "allowlisting-name-untouched-by:%s@real_canonical_name" % nm,
                  "only applied to the emitted name (under a test of `opt.user_mangled`)" if ok else
                  "`%s` is applied to the allowlisting name too: the pattern has to be written for the rewritten name, not for the "
                  "C/C++ one (`int match;` needs `--allowlist-var match_`; with --c-naming `struct foo` needs `struct_foo`)" % nm, b.loc(c))
