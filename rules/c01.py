"""C01 — generated bindings compile for every accepted header and option set.

Whole-module type-correctness of the output is *not* decidable statically and is not claimed.  What is
decided here are structural necessary conditions, all on the type-checked HIR (`quote!` expansions are
read as the resolved `quote::__private::push_*` / `ToTokens::to_tokens` call trees, never as text):

  R1.1  every `__Bindgen*` / `__IncompleteArrayField` support type whose *name* is emitted is requested
        (the need is recorded where the name is emitted, survives `CodegenResult::inner`, is read in
        the root-module branch and guards the `prepend_*` that defines exactly that name)
  R1.2  `BindgenContext::rust_mangle` renames every Rust keyword / bare-emitted primitive type name
        (oracle: rules/oracle/rust_keywords.json) and replaces the characters it detects
  R1.3  every identifier that is constructed without mangling (`Ident::new`, `rust_ident_raw`,
        `format_ident!`) is fed only by sanitised sources
  R1.4  the seen-sets / overload counters are consulted before a function, variable or method name is
        emitted, and the two places that append an overload number agree
  R1.5  generated code names std items by absolute path (a prelude name is shadowed by a C item of the
        same name)

Vocabulary
  helper      a support type bindgen itself defines at the top of the output (`__BindgenUnionField`, ...)
  definer     the function whose quote! sites emit `struct <helper>` (`utils::prepend_*`)
  storage     the (ADT, field) that records "this helper is needed" (`CodegenResult::saw_*`,
              `BindgenContext::generated_*`)
  recorder    an action that sets a storage: `self.f = true`, `self.f.set(true)`,
              `self.f.borrow_mut().insert(k)`, or a call of a method whose body is such an action
  raw site    a call of `Ident::new` / `rust_ident_raw` / `quote::__private::mk_ident` (format_ident!)
"""
import json
import os
import re

from engine import RuleSet
from hir import strip, kids, pat_variants as pat_variants_
import qq

RULES = RuleSet("C01", "§3 C01",
                not_decided=["type-correctness of the emitted module as a whole (needs rustc on the output)",
                             "that every derive / hand-written impl type-checks for every field type (C08 decides the derive gates)",
                             "that every referenced type is part of codegen_items (C09 decides the allowlist closure)",
                             "uniqueness of names that are unique only because the C input is (two bit-fields `x` and `set_x` "
                             "yield two methods `set_x`; a static argument over all headers is out of reach)",
                             "that embedded compile-time assertions evaluate successfully (C06 decides their shape)"])

CR = "codegen::CodegenResult"
CTX = "ir::context::BindgenContext"
QUOTE = {"quote", "syn::parse_quote", "parse_quote"}
HELPER_RE = re.compile(r"^__[A-Z][A-Za-z0-9]*$")
HELPER_PREFIX_RE = re.compile(r"^__[A-Z][A-Za-z0-9]*")
IDENT_RE = re.compile(r"^[A-Za-z_][A-Za-z0-9_]*$")
RUST_MANGLE = CTX + "::rust_mangle"
RUST_IDENT = CTX + "::rust_ident"
RUST_IDENT_RAW = CTX + "::rust_ident_raw"
IDENT_NEW = "proc_macro2::Ident::new"
MK_IDENT = "quote::__private::mk_ident"
RAW_CTORS = (IDENT_NEW, RUST_IDENT_RAW, MK_IDENT)

ORACLE_PATH = os.path.join(os.path.dirname(os.path.abspath(__file__)), "oracle", "rust_keywords.json")


def oracle():
    with open(ORACLE_PATH) as fh:
        o = json.load(fh)
    kw = set()
    for grp in ("strict", "reserved"):
        for ed, words in o[grp].items():
            kw |= set(words)
    o["keywords"] = kw
    return o


# =====================================================================================================
# small helpers
# =====================================================================================================
def callee_of(n):
    return n.get("resolved") or n.get("callee") or n.get("ctor") or ""


def callees_of(n):
    return {x for x in (n.get("resolved"), n.get("callee")) if x}


def short(path):
    """stable, readable function name for instance keys: `<A as B>::m` -> `<A as B>::m` with module paths
    and generics removed; `a::b::c` -> `b::c`."""
    m = re.match(r"^<(.+) as (.+)>::(\w+)(.*)$", path)
    if m:
        a = re.sub(r"<.*>", "", m.group(1)).split("::")[-1]
        t = re.sub(r"<.*>", "", m.group(2)).split("::")[-1]
        return "<%s as %s>::%s%s" % (a, t, m.group(3), m.group(4))
    p = re.sub(r"::<[^>]*>", "", path)
    p = re.sub(r"<impl ([^>]*)>", lambda mm: mm.group(1).split("::")[-1], p)
    segs = p.split("::")
    return "::".join(segs[-2:])


def peel(n):
    """strip + the string/option unwrapping adaptors that do not change the characters of a name."""
    while True:
        n = strip(n)
        k = n.get("k")
        if k == "MCall" and n.get("name") in ("to_string", "into_owned", "to_owned", "as_deref", "as_ref", "unwrap", "expect",
                                              "as_str", "borrow", "deref", "into_boxed_str", "as_mut", "to_str"):
            n = n["recv"]
        elif k == "Call" and callee_of(n) in ("std::hint::must_use",) and n["args"]:
            n = n["args"][0]
        elif k == "Call" and (callee_of(n) in ("std::borrow::Cow::Owned", "std::borrow::Cow::Borrowed", "std::prelude::v1::Some",
                                               "std::option::Option::Some") or
                              n.get("ctor_of") in ("std::borrow::Cow::Owned", "std::borrow::Cow::Borrowed", "std::option::Option::Some")) \
                and len(n["args"]) == 1:
            n = n["args"][0]
        elif k == "Call" and callee_of(n).split("::")[-1] in ("from", "into", "to_owned", "to_string") and len(n["args"]) == 1 \
                and ("String" in callee_of(n) or "From" in callee_of(n) or "Into" in callee_of(n) or "ToOwned" in callee_of(n)
                     or "ToString" in callee_of(n)):
            n = n["args"][0]
        else:
            return n


class Index:
    """Per-program tables shared by the rules (built once)."""

    def __init__(self, prog):
        self.prog = prog
        self.callers = {}
        self.qsites = {}     # body path -> [(site, root, tokens)]
        self.raw_sites = []  # (body, call, ctor)
        self.mangling_sites = []  # (body, call) rust_ident
        self.struct_writers = {}  # (adt, field) -> [(body, expr)]
        for p, b in prog.bodies.items():
            for n in b.nodes:
                k = n["k"]
                if k in ("Call", "MCall"):
                    for c in callees_of(n):
                        self.callers.setdefault(c, []).append((b, n))
                    c = n.get("callee") or ""
                    if c in RAW_CTORS:
                        self.raw_sites.append((b, n, c))
                    elif c == RUST_IDENT:
                        self.mangling_sites.append((b, n))
                elif k == "Struct" and n.get("adt"):
                    for f in n["fs"]:
                        self.struct_writers.setdefault((n["adt"], f["f"]), []).append((b, f["e"]))
                elif k == "Assign":
                    tgt = field_target(b, n["l"])
                    if tgt:
                        self.struct_writers.setdefault(tgt, []).append((b, n["r"]))
            roots = b.macro_roots(QUOTE)
            if roots:
                self.qsites[p] = [(site, root, qtokens(root)) for site, nm, root in roots]

    def callers_of(self, path):
        return self.callers.get(path, [])


def index(prog):
    ix = getattr(prog, "_c01_index", None)
    if ix is None:
        ix = Index(prog)
        prog._c01_index = ix
    return ix


def field_target(b, l):
    """(adt, field) written by the left-hand side of an assignment: `x.f = ..` or `*name = ..` where `name`
    is bound by a struct pattern (`FieldData { ref mut name, .. }`)."""
    l0 = l
    while l0.get("k") in ("Unary", "AddrOf") or (l0.get("k") == "Block" and not l0.get("stmts") and l0.get("tail")):
        l0 = l0.get("e") or l0.get("tail")
    if l0.get("k") == "Field" and l0.get("adt"):
        return (l0["adt"], l0["f"])
    if l0.get("k") == "Local":
        d = b.local_def.get(l0["id"])
        if d and d[1]:
            res, f = d[1][-1]
            if res and res != "tuple":
                return (res, f)
    return None


# =====================================================================================================
# quote! expansions as flat token lists
# =====================================================================================================
def qtokens(root):
    """Flat, ordered tokens of one quote!/parse_quote! expansion:
       ("id", name, node) ("p", punct, node) ("lit", text, node) ("i", None, interpolated expr)
       ("(", delimiter, node) (")", delimiter, node)"""
    out = []

    def go(n):
        if n["k"] == "Call":
            c = n.get("callee") or ""
            if c == "quote::__private::push_ident":
                out.append(("id", strip(n["args"][1]).get("v"), n))
                return
            if c == "quote::__private::push_group":
                d = strip(n["args"][1]).get("def", "?").split("::")[-1]
                out.append(("(", d, n))
                go(n["args"][2])
                out.append((")", d, n))
                return
            if c in ("quote::__private::parse", "quote::__private::push_lifetime"):
                out.append(("lit", strip(n["args"][1]).get("v"), n))
                return
            if c.startswith("quote::__private::push_"):
                out.append(("p", c.rsplit("push_", 1)[1], n))
                return
            if c.endswith("ToTokens::to_tokens") or c.endswith("ToTokens>::to_tokens"):
                out.append(("i", None, strip(n["args"][0])))
                return
        for _, ch in kids(n):
            go(ch)

    go(root)
    return out


# =====================================================================================================
# format!/format_ident! templates
# =====================================================================================================
def rust_str_literal(text):
    m = re.match(r'\s*"((?:[^"\\]|\\.)*)"', text, re.S)
    if m:
        s = m.group(1)
        s = re.sub(r"\\\n\s*", "", s)
        return s.replace('\\"', '"').replace("\\\\", "\\").replace("\\n", "\n")
    m = re.match(r'\s*r(#*)"(.*?)"\1', text, re.S)
    if m:
        return m.group(2)
    return None


def format_call(b, e):
    """the `std::fmt::format(..)` call node an expression evaluates to (through must_use / & / blocks), or None."""
    e = strip(e)
    for _ in range(4):
        if e.get("k") == "Call" and callee_of(e) == "std::hint::must_use" and e["args"]:
            e = strip(e["args"][0])
        elif e.get("k") == "Block" and not e.get("stmts") and e.get("tail"):
            e = strip(e["tail"])
        else:
            break
    if e.get("k") == "Call" and callee_of(e) == "std::fmt::format":
        return e
    return None


def format_parts(b, fcall):
    """[('lit', text) | ('hole', expr node)] of a format!/format_ident!/write! expansion, or None when the
    template cannot be related to its arguments."""
    site = b.macro_site(fcall)
    if site is None:
        return None
    text = b.prog.text(list(site))
    m = re.match(r"\s*[A-Za-z_:0-9$]+\s*!\s*[\(\[\{]", text, re.S)
    if not m:
        return None
    inner = text[m.end():]
    fmt = rust_str_literal(inner)
    if fmt is None:
        # write!(dst, "fmt", ..): skip the first argument
        m2 = re.match(r"[^,]*,", inner, re.S)
        if m2:
            fmt = rust_str_literal(inner[m2.end():])
    if fmt is None:
        return None
    pieces, holes, cur, i = [], [], "", 0
    while i < len(fmt):
        if fmt.startswith("{{", i) or fmt.startswith("}}", i):
            cur += fmt[i]
            i += 2
        elif fmt[i] == "{":
            j = fmt.index("}", i)
            holes.append(fmt[i + 1:j].split(":", 1)[0].strip())
            pieces.append(cur)
            cur = ""
            i = j + 1
        else:
            cur += fmt[i]
            i += 1
    pieces.append(cur)
    tups = [n for n in b.walk(fcall) if n["k"] == "Tup" and b.parent[n["_i"]]["k"] == "Let"]
    es = tups[0]["es"] if tups else []
    npos = sum(1 for h in holes if h == "" or h.isdigit())
    named = []
    for h in holes:
        if h and not h.isdigit() and h not in named:
            named.append(h)
    # positional arguments first, then captured / named ones in order of first appearance
    if holes and (len(tups) != 1 or len(es) < max(1, len({h for h in holes if h.isdigit()}) or 0)):
        return None
    out, pos = [], 0
    positional = [h for h in holes if h == ""]
    n_explicit = len(positional) + len({h for h in holes if h.isdigit()})
    if n_explicit + len(named) != len(es):
        return None
    for piece, h in zip(pieces, holes):
        if piece:
            out.append(("lit", piece))
        if h == "":
            out.append(("hole", es[pos]))
            pos += 1
        elif h.isdigit():
            out.append(("hole", es[int(h)]))
        else:
            out.append(("hole", es[n_explicit + named.index(h)]))
    if pieces[-1]:
        out.append(("lit", pieces[-1]))
    return out


# =====================================================================================================
# provenance of strings that become identifiers
# =====================================================================================================
INT_TY = re.compile(r"^&*(u8|u16|u32|u64|u128|usize|i8|i16|i32|i64|i128|isize)$")
IDENT_TY = re.compile(r"^&*(proc_macro2::Ident|syn::Ident)$")
APPENDERS = ("push_str", "push", "insert_str", "extend", "write_fmt", "write_str")
OPTION_ADAPTORS = ("map", "and_then", "map_or", "map_or_else", "unwrap_or_else", "or_else", "filter", "inspect", "filter_map",
                   "flat_map", "for_each", "any", "all", "position", "find", "find_map")

# Leaf source kinds that are accepted for an identifier constructed WITHOUT mangling, with the reason.
ACCEPTED_SOURCES = {
    "lit": "string literal in bindgen's own source (checked against the keyword oracle)",
    "const": "bindgen constant with a literal value (checked against the keyword oracle)",
    "int": "Display of an integer: digits only, never first (a literal or sanitised part precedes it)",
    "mangled": "result of BindgenContext::rust_mangle: keyword-free, `$ @ ?` replaced",
    "canonical": "ItemCanonicalName::canonical_name: Item::real_canonical_name ends in rust_mangle (checked by R1.3 canonical-name)",
    "ident": "Display of an already constructed proc_macro2::Ident (its own construction site is an instance of this rule)",
    "empty": "String::new(): contributes no characters",
}
# Site-level exemptions (keyed by enclosing function), with the reason.
EXEMPT_FUNCTIONS = {
    "ir::objc::ObjCMethod::format_method_call":
        "selector parts and argument names are tokens inside `msg_send!(..)`; the macro accepts keywords as selector "
        "tokens and the function itself handles `self`/`super`/`crate`/`Self`; argument names are re-read from tokens "
        "that were built with rust_ident",
}


class Prov:
    """Evaluate where the characters of a string-valued expression come from.

    Result: list of alternatives; an alternative is a list of parts (kind, detail)."""

    def __init__(self, ix):
        self.ix = ix
        self.prog = ix.prog
        self._fields = {}

    # ---- entry ------------------------------------------------------------------------------------
    def of(self, b, e, depth=0, seen=frozenset()):
        if depth > 14:
            return [[("unknown", "depth")]]
        e0 = e
        e = peel(e)
        k = e.get("k")
        t = b.ty(e) or ""
        if k == "Lit":
            if e.get("lk") in ("str", "char") or isinstance(e.get("v"), str):
                return [[("lit", e.get("v"))]]
            return [[("int", "")]]
        if INT_TY.match(t):
            return [[("int", "")]]
        if IDENT_TY.match(t):
            return [[("ident", self._ident_origin(b, e))]]
        fc = format_call(b, e)
        if fc is not None:
            return self._format(b, fc, depth, seen)
        if k == "Path":
            cb = self.prog.bodies.get(e.get("def"))
            if cb is not None and cb.kind.startswith(("Const", "Static")) and "mutability: Mut" not in cb.kind \
                    and strip(cb.root).get("k") == "Lit":
                return [[("const", strip(cb.root).get("v"))]]
            if (e.get("def") or "").endswith("::None"):
                return []  # Option::None: no string at all
            return [[("unknown", "path " + str(e.get("def")))]]
        if k in ("Call", "MCall"):
            return self._call(b, e, depth, seen)
        if k == "Local":
            return self._local(b, e, depth, seen)
        if k == "Field":
            return self._field(e.get("adt"), e["f"], depth, seen)
        if k == "If":
            out = self.of(b, e["then"], depth + 1, seen)
            if "else" in e:
                out = out + self.of(b, e["else"], depth + 1, seen)
            return out
        if k == "Match":
            out = []
            for a in e["arms"]:
                if (b.ty(a["body"]) or "") == "!":
                    continue
                out += self.of(b, a["body"], depth + 1, seen)
            return out or [[("unknown", "match")]]
        if k == "Block":
            if e.get("tail") is not None:
                return self.of(b, e["tail"], depth + 1, seen)
            return [[("unknown", "block")]]
        if k == "Index":
            return self.of(b, e["base"], depth + 1, seen)
        if k == "Try":
            return self.of(b, e["e"], depth + 1, seen)
        return [[("unknown", k or "?")]]

    def _ident_origin(self, b, e):
        e = peel(e)
        if e.get("k") in ("Call", "MCall"):
            return callee_of(e).split("::")[-1]
        if e.get("k") == "Local":
            init = b.local_init(e["id"])
            if init is not None:
                return self._ident_origin(b, init)
        return "value"

    def _format(self, b, fc, depth, seen):
        parts = format_parts(b, fc)
        if parts is None:
            return [[("unknown", "format template")]]
        alts = [[]]
        for kind, v in parts:
            if kind == "lit":
                alts = [a + [("lit", v)] for a in alts]
            else:
                sub = self.of(b, v, depth + 1, seen)
                alts = [a + s for a in alts for s in sub][:24]
        return alts

    def _call(self, b, e, depth, seen):
        c = callee_of(e)
        cs = callees_of(e)
        name = e.get("name") or c.split("::")[-1]
        if RUST_MANGLE in cs:
            return [[("mangled", "")]]
        if e.get("callee") == "ir::item::ItemCanonicalName::canonical_name" or c.endswith("ItemCanonicalName>::canonical_name") \
                or (e.get("trait") or "") == "ir::item::ItemCanonicalName" and name == "canonical_name":
            return [[("canonical", short(c))]]
        if c in ("std::string::String::new",):
            return [[("empty", "")]]
        if e["k"] == "MCall":
            if name in ("unwrap_or", "or"):
                return self.of(b, e["recv"], depth + 1, seen) + self.of(b, e["args"][0], depth + 1, seen)
            if name in ("unwrap_or_default",):
                return self.of(b, e["recv"], depth + 1, seen) + [[("empty", "")]]
            if name in OPTION_ADAPTORS and e["args"] and strip(e["args"][-1]).get("k") == "Closure":
                clo = strip(e["args"][-1])
                out = self.of(b, clo["body"], depth + 1, seen)
                if name in ("map_or", "map_or_else") and len(e["args"]) == 2:
                    d = strip(e["args"][0])
                    out = out + (self.of(b, d["body"], depth + 1, seen) if d.get("k") == "Closure" else self.of(b, d, depth + 1, seen))
                if name in ("unwrap_or_else", "or_else", "filter", "inspect"):
                    out = out + self.of(b, e["recv"], depth + 1, seen) if name in ("unwrap_or_else", "or_else") else \
                        self.of(b, e["recv"], depth + 1, seen)
                return out
            if name in ("iter", "into_iter", "enumerate", "next", "first", "last", "get", "remove", "pop", "get_mut", "values",
                        "peekable", "rev", "skip", "take", "cloned", "copied", "trim", "trim_start", "trim_end", "take_while",
                        "as_slice", "collect", "chars", "split", "lines"):
                return self.of(b, e["recv"], depth + 1, seen)
        # a method / function of the crate: follow trivial getters and small accessor bodies
        g = self.prog.getters().get(c)
        if g:
            return self._field(g[0], g[1], depth, seen)
        cb = self.prog.bodies.get(c)
        if cb is not None and c not in seen and len(cb.nodes) <= 60:
            r = cb.root
            tail = r.get("tail") if r.get("k") == "Block" else r
            if tail is not None:
                sub = self.of(cb, tail, depth + 1, seen | {c})
                # a parameter of the accessor other than `self` is not followed
                if not any(p[0] == "param" for a in sub for p in a):
                    return sub
        return [[("call", c or name)]]

    def _local(self, b, e, depth, seen):
        lid = e["id"]
        d = b.local_def.get(lid)
        if d is None:
            return [[("unknown", "local " + e.get("name", "?"))]]
        origin, path, pat = d
        key = ("local", b.path, lid)
        if key in seen:
            return [[("empty", "")]]
        seen = seen | {key}
        if path and path[-1][0] not in (None, "tuple") and not _is_wrapper_path(path[-1]):
            # bound by a struct / tuple-struct pattern: the storage is that ADT field
            return self._field(path[-1][0], path[-1][1], depth, seen)
        if origin[0] == "let":
            init = origin[1].get("init")
            if init is None:
                base = []
            else:
                init = self._project(b, init, path)
                base = self.of(b, init, depth + 1, seen)
            extra = self._mutations(b, lid, depth, seen)
            if extra:
                base = [a + [("append", extra)] for a in (base or [[]])]
            return base or [[("unknown", "uninitialised local")]]
        if origin[0] == "param":
            if b.path in EXEMPT_FUNCTIONS:
                return [[("exempt", b.path)]]
            return self._param(b, origin[1], path, depth, seen)
        if origin[0] == "cparam":
            clo = origin[1]
            par = b.parent[clo["_i"]]
            while par is not None and par["k"] in ("AddrOf", "Block"):
                par = b.parent[par["_i"]]
            if par is not None and par["k"] == "MCall" and par.get("name") in OPTION_ADAPTORS:
                return self.of(b, par["recv"], depth + 1, seen)
            return [[("unknown", "closure parameter " + pat.get("name", "?"))]]
        if origin[0] == "letcond":
            return self.of(b, self._project(b, origin[1]["init"], path), depth + 1, seen)
        if origin[0] == "arm":
            return self.of(b, self._project(b, origin[1]["scrut"], path), depth + 1, seen)
        if origin[0] == "for":
            return self.of(b, self._project(b, origin[1]["iter"], path), depth + 1, seen)
        return [[("unknown", "local " + e.get("name", "?"))]]

    @staticmethod
    def _project(b, init, path):
        """follow tuple projections of a destructuring pattern into a tuple expression when visible."""
        e = init
        for res, f in path:
            if res == "tuple":
                s = strip(e)
                if s.get("k") == "Tup" and f.isdigit() and int(f) < len(s["es"]):
                    e = s["es"][int(f)]
        return e

    def _mutations(self, b, lid, depth, seen):
        """alternatives appended to a mutable String local by push_str / push / write! / `x = ..` / `&mut x` passed on."""
        out = []
        for n in b.nodes:
            k = n["k"]
            if k == "MCall" and n.get("name") in APPENDERS:
                r = strip(n["recv"])
                if r.get("k") == "Local" and r["id"] == lid and n["args"]:
                    a = n["args"][0]
                    if n.get("name") == "write_fmt":
                        parts = self._write_fmt(b, n, depth, seen)
                        out += parts
                    else:
                        out += self.of(b, a, depth + 1, seen)
            elif k in ("Assign", "AssignOp"):
                l = strip(n["l"])
                if l.get("k") == "Local" and l["id"] == lid:
                    out += self.of(b, n["r"], depth + 1, seen)
            elif k in ("Call", "MCall") and n.get("name") not in APPENDERS:
                # `&mut x` handed to another function of the crate: what that function appends to its parameter
                args = ([n["recv"]] if k == "MCall" else []) + n["args"]
                for i, a in enumerate(args):
                    if a.get("k") == "AddrOf" and a.get("mut") and strip(a).get("k") == "Local" and strip(a)["id"] == lid:
                        c = callee_of(n)
                        cb = self.prog.bodies.get(c)
                        key = ("mutparam", c, i)
                        if cb is None:
                            out.append([("call", c)])
                        elif key not in seen and i < len(cb.params) and cb.params[i].get("k") == "Bind":
                            out += self._mutations(cb, cb.params[i]["id"], depth + 1, seen | {key})
        return out

    def _write_fmt(self, b, n, depth, seen):
        fcs = [x for x in b.walk(n) if x["k"] == "Call" and callee_of(x).startswith("std::fmt::Arguments")]
        if not fcs:
            return [[("unknown", "write!")]]
        parts = format_parts(b, n)
        if parts is None:
            return [[("unknown", "write! template")]]
        alts = [[]]
        for kind, v in parts:
            if kind == "lit":
                alts = [a + [("lit", v)] for a in alts]
            else:
                sub = self.of(b, v, depth + 1, seen)
                alts = [a + s for a in alts for s in sub][:24]
        return alts

    def _param(self, b, i, path, depth, seen):
        callers = []
        for key in {b.path, b.fact.get("trait_item")} - {None}:
            callers += self.ix.callers_of(key)
        # calls through the trait resolve to this impl only when `resolved` says so
        mine = []
        for cb, c in callers:
            if c.get("resolved") and c["resolved"] != b.path:
                continue
            if not c.get("resolved") and c.get("callee") != b.path:
                continue
            if (cb.path, c["_i"]) not in [(x.path, y["_i"]) for x, y in mine]:
                mine.append((cb, c))
        if not mine:
            return [[("param", "%s#%d (no caller)" % (short(b.path), i))]]
        out = []
        for cb, c in mine:
            args = ([c["recv"]] if c["k"] == "MCall" else []) + c["args"]
            if i >= len(args):
                out.append([("unknown", "arity")])
                continue
            a = self._project(cb, args[i], path)
            out += self.of(cb, a, depth + 1, seen | {("param", b.path, i)})
        return out[:48]

    def _field(self, adt, f, depth, seen):
        if not adt:
            return [[("unknown", "field ." + f)]]
        key = ("field", adt, f)
        if adt == "options::BindgenOptions":
            return [[("option", f)]]
        if key in seen or depth > 11:
            return [[("field", "%s::%s" % (adt, f))]]
        if key in self._fields:
            return self._fields[key]
        ws = self.ix.struct_writers.get((adt, f), [])
        if not ws:
            return [[("field", "%s::%s" % (adt, f))]]
        self._fields[key] = [[("field", "%s::%s" % (adt, f))]]
        out = []
        for wb, we in ws:
            sub = self.of(wb, we, depth + 1, seen | {key})
            for a in sub:
                if a not in out:
                    out.append(a)
        out = out[:32]
        self._fields[key] = out
        return out


def _is_wrapper_path(step):
    res, f = step
    return res in ("std::option::Option::Some", "std::prelude::v1::Some", "std::result::Result::Ok", "std::borrow::Cow::Owned",
                   "std::borrow::Cow::Borrowed") or (res or "").endswith("::Some")


def flatten_parts(alt):
    """expand ('append', alts) parts into a flat description + the list of all leaf parts."""
    leaves = []
    for kind, d in alt:
        if kind in ("append", "append+"):
            for a in d:
                leaves += flatten_parts(a)
        else:
            leaves.append((kind, d))
    return leaves


def expand_appends(alt):
    """a mutable string is its initial value followed by zero or more appends: return the alternative without
    the appends and the one with at least one (kind 'append+')."""
    if not any(k == "append" for k, _ in alt):
        return [alt]
    return [[(k, d) for k, d in alt if k != "append"],
            [(("append+", d) if k == "append" else (k, d)) for k, d in alt]]


def shape_body(alt):
    rx = ""
    for kind, d in alt:
        if kind in ("lit", "const"):
            rx += re.escape(d or "")
        elif kind == "int":
            rx += "[0-9]+"
        elif kind == "empty":
            rx += ""
        elif kind in ("append", "append+"):
            rx += "(?:%s)%s" % ("|".join(shape_body(a) for a in d) or "", "+" if kind == "append+" else "*")
        else:
            rx += ".+"
    return rx


def shape_regex(alt):
    """regex over-approximating the strings an alternative can denote."""
    return "^" + shape_body(alt) + "$"


def describe(alt):
    out = []
    for kind, d in alt:
        if kind in ("append", "append+"):
            out.append("+(" + " | ".join(describe(a) for a in d) + (")*" if kind == "append" else ")+"))
        elif kind in ("lit", "const"):
            out.append("%s %r" % (kind, d))
        elif d:
            out.append("%s:%s" % (kind, d))
        else:
            out.append(kind)
    return " ".join(out) if out else "<empty>"


# =====================================================================================================
# R1.1
# =====================================================================================================
NEED_TYPES = re.compile(r"^(bool|std::cell::Cell<bool>|std::cell::RefCell<std::collections::HashSet<.*)$")


def adt_fields(prog, adt):
    a = prog.adts.get(adt)
    if not a:
        return {}
    out = {}
    for v in a["variants"]:
        for f in v["fields"]:
            out[f["name"]] = prog.types[f["ty"]]
    return out


def need_storage_fields(prog):
    out = set()
    for adt in (CR, CTX):
        for f, t in adt_fields(prog, adt).items():
            if NEED_TYPES.match(t):
                out.add((adt, f))
    return out


def storage_reads(prog, b, within, need, follow=True):
    """need-storage fields read below `within` (directly, or through one level of a BindgenContext / CodegenResult method)."""
    out = set()
    for n in b.walk(within):
        if n["k"] == "Field" and (n.get("adt"), n["f"]) in need:
            out.add((n["adt"], n["f"]))
        elif follow and n["k"] in ("Call", "MCall"):
            cb = prog.bodies.get(callee_of(n))
            if cb is not None and (cb.fact.get("impl_self") or "").split("<")[0] in (CR, CTX) and cb.fact.get("impl_trait") is None:
                out |= storage_reads(prog, cb, cb.root, need, follow=False)
    return out


def direct_actions(b, need):
    """recording actions written inline: [(node, storage, key argument | None)]"""
    out = []
    for n in b.nodes:
        k = n["k"]
        if k == "Assign":
            l = strip(n["l"])
            if l.get("k") == "Field" and (l.get("adt"), l["f"]) in need and strip(n["r"]).get("v") is True:
                out.append((n, (l["adt"], l["f"]), None))
        elif k == "MCall" and n.get("name") == "set" and len(n["args"]) == 1:
            r = strip(n["recv"])
            if r.get("k") == "Field" and (r.get("adt"), r["f"]) in need and strip(n["args"][0]).get("v") is True:
                out.append((n, (r["adt"], r["f"]), None))
        elif k == "MCall" and n.get("name") in ("insert", "push", "extend") and n["args"]:
            r = strip(n["recv"])
            while r.get("k") == "MCall" and r.get("name") in ("borrow_mut", "get_mut", "lock", "unwrap"):
                r = strip(r["recv"])
            if r.get("k") == "Field" and (r.get("adt"), r["f"]) in need:
                out.append((n, (r["adt"], r["f"]), n["args"][0]))
    return out


class HelperModel:
    def __init__(self, rep):
        prog = rep.prog
        self.prog = prog
        self.ix = index(prog)
        self.need = need_storage_fields(prog)
        self.prov = Prov(self.ix)
        # ---- name occurrences ---------------------------------------------------------------------
        # (body, node, template) ; template = tuple of ("lit", s) | ("hole", expr)
        self.occ = []
        for p, sites in self.ix.qsites.items():
            b = prog.bodies[p]
            for site, root, toks in sites:
                for i, t in enumerate(toks):
                    if t[0] == "id" and t[1] and HELPER_RE.match(t[1]):
                        self.occ.append((b, t[2], (("lit", t[1]),), self._is_def_token(toks, i)))
        for b, n, ctor in self.ix.raw_sites + [(b, n, RUST_IDENT) for b, n in self.ix.mangling_sites]:
            tpl = self.ident_template(b, n["args"][0])
            if tpl and tpl[0][0] == "lit" and HELPER_PREFIX_RE.match(tpl[0][1]):
                self.occ.append((b, n, tpl, False))
        # ---- definers ---------------------------------------------------------------------------
        self.definers = {}  # body path -> [template]
        for p, sites in self.ix.qsites.items():
            b = prog.bodies[p]
            names = []
            for site, root, toks in sites:
                for i, t in enumerate(toks):
                    if t[0] == "id" and t[1] == "struct" and i + 1 < len(toks):
                        nx = toks[i + 1]
                        if nx[0] == "id" and nx[1] and HELPER_RE.match(nx[1]):
                            names.append((("lit", nx[1]),))
                        elif nx[0] == "i":
                            names += self._templates_of_local(b, nx[2])
            for n in b.nodes:
                if n["k"] == "Lit" and isinstance(n.get("v"), str) and "struct" in n["v"] and len(n["v"]) > 40:
                    for m in re.finditer(r"\bstruct\s+(__[A-Z][A-Za-z0-9]*)", n["v"]):
                        tp = (("lit", m.group(1)),)
                        if tp not in names:
                            names.append(tp)
            if names:
                self.definers[p] = names
        self.setters = {}  # fn path -> (storage, param index of the key | None)
        for p, b in prog.bodies.items():
            if (b.fact.get("impl_self") or "").split("<")[0] not in (CR, CTX):
                continue
            acts = direct_actions(b, self.need)
            if len(acts) == 1 and len(b.nodes) <= 14:
                n, st, key = acts[0]
                ki = None
                if key is not None:
                    kk = strip(key)
                    if kk.get("k") == "Local":
                        d = b.local_def.get(kk["id"])
                        if d and d[0][0] == "param":
                            ki = d[0][1]
                self.setters[p] = (st, ki)

    @staticmethod
    def _is_def_token(toks, i):
        prev = toks[i - 1] if i else None
        return bool(prev and prev[0] == "id" and prev[1] == "struct")

    def ident_template(self, b, e):
        """template of the string handed to an identifier constructor when it is literal-anchored."""
        e = peel(e)
        fc = format_call(b, e)
        if fc is not None:
            parts = format_parts(b, fc)
            if parts:
                return tuple(parts)
            return None
        if e.get("k") == "Lit" and isinstance(e.get("v"), str):
            return (("lit", e["v"]),)
        if e.get("k") == "Path":
            cb = self.prog.bodies.get(e.get("def"))
            if cb is not None and cb.kind.startswith(("Const", "Static")) and "mutability: Mut" not in cb.kind \
                    and strip(cb.root).get("k") == "Lit":
                return (("lit", strip(cb.root).get("v")),)
        if e.get("k") == "Local":
            init = b.local_init(e["id"])
            if init is not None:
                return self.ident_template(b, init)
        return None

    def _templates_of_local(self, b, e):
        out = []
        e = strip(e)
        if e.get("k") != "Local":
            return out
        d = b.local_def.get(e["id"])
        if not d or d[0][0] != "let" or d[0][1].get("init") is None:
            return out
        for n in b.walk(d[0][1]["init"]):
            if n["k"] in ("Call", "MCall") and (n.get("callee") in RAW_CTORS or n.get("callee") == RUST_IDENT):
                tpl = self.ident_template(b, n["args"][0])
                if tpl and tpl[0][0] == "lit" and HELPER_PREFIX_RE.match(tpl[0][1]):
                    out.append(tpl)
        return out

    @staticmethod
    def tpl_key(tpl):
        return "".join(v if k == "lit" else "{}" for k, v in tpl)

    def definer_of(self, tpl):
        k = self.tpl_key(tpl)
        return [p for p, names in self.definers.items() if any(self.tpl_key(t) == k for t in names)]

    # ---- recorders in a body -------------------------------------------------------------------
    def recorders(self, b):
        out = list(direct_actions(b, self.need))
        for n in b.nodes:
            if n["k"] in ("Call", "MCall"):
                for c in callees_of(n):
                    if c in self.setters:
                        st, ki = self.setters[c]
                        args = ([n["recv"]] if n["k"] == "MCall" else []) + n["args"]
                        out.append((n, st, args[ki] if ki is not None and ki < len(args) else None))
                        break
        return out


def atoms_set(b, n):
    return {(a, p) for a, p, _ in qq.guard_atoms(b, n)}


@RULES.rule("R1.1", "helper definitions are requested wherever their names are emitted", floor=58)
def r1_1(rep):
    """Breaks: dropping `result.saw_incomplete_array()` from FieldData::codegen makes `struct S {int n; int a[];};`
    emit `pub a: __IncompleteArrayField<c_int>` without the definition (E0412).  With --enable-cxx-namespaces a
    flag that `CodegenResult::inner` does not merge into its parent leaves `root::__BindgenUnionField` undefined
    for `union U {int a; float b;};` with --default-non-copy-union-style bindgen_wrapper.

    Everything is derived: helpers are the `__[A-Z]..` names that some quote! emits after `struct`; the storage of a
    helper is what guards (or, for the keyed opaque arrays, what is iterated by) its definer in the root-module
    branch; recorders are the actions that set that storage.  A use site must execute a recorder under a guard it
    implies, in its own function or in every direct caller (two levels).  For the ObjC / block import headers
    (`saw_objc`, `saw_block`: no `__Helper` name) only the flag protocol is checked (recorded somewhere, folded by
    `inner`, read in the root-module branch): their need is recorded when the ObjC builtin / interface item itself is
    generated, which relies on the allowlist closure (C09), not on the emission site.
    `CodegenResult` fields are classified exactly: returned / constructor-shared / consumed on the top-level result
    (must be folded by `inner`) / module-scoped by design (MODULE_SCOPED, must have no top-level consumer)."""
    prog = rep.prog
    hm = HelperModel(rep)
    rep.need(hm.definers, "a function whose quote! emits `struct __<Helper>`")
    rep.need(hm.occ, "emission sites of helper names")

    # ---- (a) every definer is dispatched from the root-module branch under its storage -------------
    definer_storage = {}
    for dp, names in sorted(hm.definers.items()):
        db = prog.bodies[dp]
        calls = hm.ix.callers_of(dp)
        dkey = short(dp)
        defined = ", ".join(hm.tpl_key(t) for t in names)
        if not calls:
            rep.bad("root:" + dkey, "`%s` (defines %s) is never called" % (dkey, defined), db.loc(db.root))
            continue
        rep.ok("root:" + dkey, "`%s` defines %s and is called from %s" %
               (dkey, defined, ", ".join(sorted({short(cb.path) for cb, _ in calls}))), db.loc(db.root))
        for cb, c in calls:
            atoms = qq.guard_atoms(cb, c)
            rootg = [a for a in atoms if a[1] and "==" in a[0] and "BindgenContext::root_module" in a[0] and "Item::id" in a[0]]
            others = [a for a in atoms if a not in rootg]
            rep.check(bool(rootg), "root:%s:root-module-only" % dkey,
                      "helper definitions are prepended only while generating the root module (guards: %s)" %
                      [a[0][:60] for a in atoms], cb.loc(c))
            st = set()
            for a, pol, node in others:
                if pol:
                    st |= storage_reads(prog, cb, node, hm.need)
            extra = [a for a in others if not (a[1] and storage_reads(prog, cb, a[2], hm.need))]
            if not others:
                st = storage_reads(prog, db, db.root, hm.need)
            rep.check(bool(st) and not extra, "root:%s:guard" % dkey,
                      "`%s` runs iff the need storage %s is set%s" %
                      (dkey, sorted("%s::%s" % (a.split("::")[-1], f) for a, f in st),
                       "" if not extra else "; additional guard %s" % [a[0][:80] for a in extra]), cb.loc(c))
            definer_storage.setdefault(dp, set()).update(st)
    # two definers must not share a storage (a swapped guard would define the wrong helper)
    by_storage = {}
    for dp, st in definer_storage.items():
        for s in st:
            by_storage.setdefault(s, []).append(dp)
    for s, dps in sorted(by_storage.items()):
        rep.check(len(dps) == 1, "storage:%s::%s:one-definer" % (s[0].split("::")[-1], s[1]),
                  "need storage guards exactly one definer (%s)" % ", ".join(short(d) for d in dps))

    # ---- (b) every bool need flag of CodegenResult is recorded somewhere and read in the root-module branch
    setters_of = {}
    for p, (st, ki) in hm.setters.items():
        setters_of.setdefault(st, []).append(p)
    root_calls = {}  # flag -> [(body, call)]
    root_bodies = {}
    for p, b in prog.bodies.items():
        if "root_module" not in "".join(c.get("name", "") or "" for c in b.calls()):
            continue
        for c in b.calls():
            atoms = qq.guard_atoms(b, c)
            if not any(a[1] and "==" in a[0] and "BindgenContext::root_module" in a[0] and "Item::id" in a[0] for a in atoms):
                continue
            root_bodies[p] = b
            for a, pol, node in atoms:
                e = strip(node)
                if pol and e.get("k") == "Field" and e.get("adt") == CR and (CR, e["f"]) in hm.need:
                    root_calls.setdefault(e["f"], []).append((b, c))
    rep.need(root_bodies, "a branch guarded by `item.id() == ctx.root_module()`")
    for f, t in sorted(adt_fields(prog, CR).items()):
        if (CR, f) not in hm.need:
            continue
        users = sum(len(hm.ix.callers_of(p)) for p in setters_of.get((CR, f), []))
        inline = sum(1 for b in prog.bodies.values() if (b.fact.get("impl_self") or "").split("<")[0] != CR
                     for x in direct_actions(b, {(CR, f)}))
        rep.check(users + inline > 0, "flag:%s:recorded" % f,
                  "`CodegenResult::%s` is set by %d call(s) of its setter / %d inline assignment(s)" % (f, users, inline))
        rc = root_calls.get(f, [])
        rep.check(bool(rc), "flag:%s:read-at-root" % f,
                  "`CodegenResult::%s` guards %s in the root-module branch" %
                  (f, ", ".join(sorted({short(callee_of(c)) for _, c in rc})) or "nothing"),
                  rc[0][0].loc(rc[0][1]) if rc else "")
    # the root-module branch runs after the children have been generated (the flags are set while generating them)
    for p, b in sorted(root_bodies.items()):
        firsts = [c for c in b.calls() if any(a[1] and "BindgenContext::root_module" in a[0] and "==" in a[0]
                                               for a in qq.guard_atoms(b, c)) and callee_of(c) in hm.definers]
        if not firsts:
            continue
        first = min(firsts, key=lambda c: c["_i"])
        loops = [n for n in b.nodes if n["k"] == "For" and n["_i"] < first["_i"] and
                 any((c.get("callee") or "").endswith("CodeGenerator::codegen") or
                     (c.get("resolved") or "").endswith("CodeGenerator>::codegen") for c in b.calls(None, n["body"]))]
        same_scope = [n for n in loops if _enclosing_closure(b, n) is _enclosing_closure(b, first)]
        rep.check(bool(same_scope), "root:order@%s" % short(p),
                  "helper definitions are prepended after the loop that generates the module's children", b.loc(first))

    # ---- (c) use sites --------------------------------------------------------------------------------
    uses = [(b, n, tpl) for b, n, tpl, is_def in hm.occ if b.path not in hm.definers and not is_def]
    rep.need(uses, "use sites of helper names")
    seen_keys = {}
    for b, n, tpl in uses:
        name = hm.tpl_key(tpl)
        key = "use:%s@%s" % (name, short(b.path))
        seen_keys[key] = seen_keys.get(key, 0) + 1
        if seen_keys[key] > 1:
            key = "%s#%d" % (key, seen_keys[key])
        dps = hm.definer_of(tpl)
        if not dps:
            rep.bad(key, "`%s` is emitted but no function defines it (no quote! with `struct %s`)" % (name, name), b.loc(n))
            continue
        storages = set()
        for dp in dps:
            storages |= definer_storage.get(dp, set())
        if not storages:
            rep.bad(key, "`%s` is defined by `%s`, which is not dispatched under a need storage" % (name, short(dps[0])), b.loc(n))
            continue
        ok, why = recorded(hm, b, n, storages, tpl, depth=0)
        rep.check(ok, key, why, b.loc(n))

    # ---- (d) CodegenResult fields survive `inner` ------------------------------------------------------
    inner = [b for b in prog.bodies.values() if (b.fact.get("impl_self") or "").split("<")[0] == CR and
             any(callee_of(c).split("::<")[0] == CR and callee_of(c).endswith("::new") for c in b.calls())]
    rep.need(inner, "the CodegenResult method that creates a nested CodegenResult (`inner`)")
    for ib in inner:
        newc = [c for c in ib.calls() if callee_of(c).endswith("::new") and callee_of(c).split("::<")[0] == CR][0]
        par = ib.parent[newc["_i"]]
        new_id = par["pat"].get("id") if par["k"] == "Let" and par["pat"].get("k") == "Bind" else None
        rep.need(new_id is not None or None, "`let new = Self::new(..)` in %s" % ib.path)

        def is_new(e):
            e = strip(e)
            return e.get("k") == "Local" and e.get("id") == new_id

        def is_self(e):
            e = strip(e)
            return e.get("k") == "Local" and e.get("name") == "self"

        ctor_args = set()
        for a in newc["args"]:
            a = strip(a)
            if a.get("k") == "Field" and a.get("adt") == CR and is_self(a["base"]):
                ctor_args.add(a["f"])
        merged, returned = set(), set()
        for n in ib.nodes:
            if n["k"] == "AssignOp" and n.get("op") in ("|", "|=", "BitOr", "+", "+="):
                l, r = strip(n["l"]), strip(n["r"])
                if l.get("k") == "Field" and r.get("k") == "Field" and l.get("adt") == CR and l["f"] == r["f"] \
                        and is_self(l["base"]) and is_new(r["base"]) and not qq.guard_atoms(ib, n):
                    merged.add(l["f"])
            elif n["k"] == "Assign":
                l = strip(n["l"])
                if l.get("k") == "Field" and l.get("adt") == CR and is_self(l["base"]):
                    rs = [x for x in ib.walk(n["r"]) if x["k"] == "Field" and x.get("adt") == CR and x["f"] == l["f"]]
                    if any(is_new(x["base"]) for x in rs) and any(is_self(x["base"]) for x in rs) and not qq.guard_atoms(ib, n):
                        merged.add(l["f"])
            elif n["k"] == "MCall" and n.get("name") in ("extend", "append", "extend_from_slice", "merge", "absorb"):
                l = strip(n["recv"])
                if l.get("k") == "Field" and l.get("adt") == CR and is_self(l["base"]) and not qq.guard_atoms(ib, n):
                    for x in ib.walk(n["args"][0]) if n["args"] else []:
                        if x["k"] == "Field" and x.get("adt") == CR and x["f"] == l["f"] and is_new(x["base"]):
                            merged.add(l["f"])
        tail = ib.root.get("tail")
        if tail is not None:
            t = strip(tail)
            if t.get("k") == "Field" and t.get("adt") == CR and is_new(t["base"]):
                returned.add(t["f"])
        consumed = root_consumers(prog, hm)
        for f, t in adt_fields(prog, CR).items():
            key = "merge:" + f
            kind = "need flag" if NEED_TYPES.match(t) else "accumulator"
            where = consumed.get(f)
            if f in returned:
                rep.ok(key, "returned to the caller, which wraps it into the `pub mod`", ib.loc(ib.root))
            elif f in ctor_args:
                rep.ok(key, "shared with the nested result through the constructor", ib.loc(ib.root))
            elif where and f in MODULE_SCOPED:
                rep.bad(key, "`CodegenResult::%s` is declared module-scoped (%s) but it is consumed on the top-level result (%s)" %
                        (f, MODULE_SCOPED[f], where[0]), ib.loc(ib.root))
            elif where and f in merged:
                rep.ok(key, "consumed on the top-level result (%s); `%s` folds the nested result's `%s` into the parent" %
                       (where[0], short(ib.path), f), ib.loc(ib.root))
            elif where:
                rep.bad(key, "%s `CodegenResult::%s` (%s) is consumed on the top-level result (%s) but `%s` drops the nested "
                             "module's value: with --enable-cxx-namespaces the root module itself is generated through `%s`, "
                             "so whatever codegen records in `%s` never reaches the consumer" %
                        (kind, f, t, where[0], short(ib.path), short(ib.path).split("::")[-1], f), ib.loc(ib.root))
            elif f in MODULE_SCOPED:
                rep.ok(key, "never consumed on the top-level result; module-scoped by design: " + MODULE_SCOPED[f], ib.loc(ib.root))
            elif f in merged:
                rep.ok(key, "folded into the parent (no top-level consumer found)", ib.loc(ib.root))
            else:
                rep.bad(key, "%s `CodegenResult::%s` (%s) is neither folded into the parent by `%s`, nor consumed at the root, nor "
                             "declared module-scoped in MODULE_SCOPED: classify the new field" % (kind, f, t, short(ib.path)),
                        ib.loc(ib.root))
    rep.note("definers", {short(p): [hm.tpl_key(t) for t in ns] for p, ns in hm.definers.items()})
    rep.note("storage", {short(p): sorted("%s::%s" % s for s in st) for p, st in definer_storage.items()})
    rep.note("use sites", len(uses))


def root_consumers(prog, hm):
    """CodegenResult fields that are consumed on the TOP-LEVEL result: read under the root-module guard, or read
    after generation by the function that creates the top-level result (directly, through a trivial accessor, or in
    a callee that receives the result and is not itself a CodeGenerator).  field -> [description]"""
    out = {}
    getters = prog.getters()

    def note(f, what):
        out.setdefault(f, []).append(what)

    def reads(b, within, what):
        for n in b.walk(within):
            if n["k"] == "Field" and n.get("adt") == CR:
                note(n["f"], what)
            elif n["k"] in ("Call", "MCall"):
                g = getters.get(callee_of(n))
                if g and g[0] == CR:
                    note(g[1], what)

    for p, b in prog.bodies.items():
        is_cr_method = (b.fact.get("impl_self") or "").split("<")[0] == CR
        # (1) under the root-module guard
        for n in b.nodes:
            if n["k"] == "Field" and n.get("adt") == CR and not is_cr_method:
                atoms = qq.guard_atoms(b, n)
                cond_of_root = any(a[1] and "BindgenContext::root_module" in a[0] and "==" in a[0] for a in atoms)
                if cond_of_root:
                    note(n["f"], "read in the root-module branch of %s" % short(p))
        # (2) the creator of the top-level result
        if is_cr_method:
            continue
        news = [c for c in b.calls() if callee_of(c).split("::<")[0] == CR and callee_of(c).endswith("::new")]
        for c in news:
            par = b.parent[c["_i"]]
            if par is None or par["k"] != "Let" or par["pat"].get("k") != "Bind":
                continue
            rid = par["pat"]["id"]
            for n in b.nodes:
                if n["k"] == "Field" and n.get("adt") == CR and strip(n["base"]).get("id") == rid and n["f"] != "items":
                    note(n["f"], "read by %s after generation" % short(p))
                elif n["k"] in ("Call", "MCall"):
                    args = ([n["recv"]] if n["k"] == "MCall" else []) + n["args"]
                    if not any(strip(a).get("k") == "Local" and strip(a).get("id") == rid for a in args):
                        continue
                    c2 = callee_of(n)
                    g = getters.get(c2)
                    if g and g[0] == CR:
                        note(g[1], "read by %s after generation" % short(p))
                        continue
                    if n.get("trait") == "codegen::CodeGenerator" or c2.endswith("CodeGenerator>::codegen") or \
                            (n.get("callee") or "").endswith("CodeGenerator::codegen"):
                        continue  # generation itself
                    cb = prog.bodies.get(c2)
                    if cb is not None and (cb.fact.get("impl_self") or "").split("<")[0] != CR:
                        reads(cb, cb.root, "read by %s, called by %s after generation" % (short(c2), short(p)))
    out.pop("items", None)
    return out


def _enclosing_closure(b, n):
    for a in b.ancestors(n):
        if a["k"] == "Closure":
            return a
    return None


# CodegenResult fields that are deliberately per-module, with the reason.  The table is cross-checked: a field listed
# here must have no consumer on the top-level result (root_consumers), and a field without such a consumer that is
# neither folded into the parent nor listed here is reported (a new field has to be classified).
MODULE_SCOPED = {
    "items_seen": "an item is generated by exactly one module scope; the set only prevents a second visit inside that scope",
    "functions_seen": "Rust item names need to be unique per module only; each nested result is exactly one `pub mod`",
    "vars_seen": "Rust item names need to be unique per module only; each nested result is exactly one `pub mod`",
    "overload_counters": "overload suffixes disambiguate names inside one module; each nested result is exactly one `pub mod`",
}


def recorded(hm, b, n, storages, tpl, depth):
    """Is a recorder of one of `storages` executed whenever node n of body b executes — in b, or in every direct caller?"""
    site_atoms = atoms_set(b, n)
    recs = [(rn, st, key) for rn, st, key in hm.recorders(b) if st in storages]
    best = None
    for rn, st, key in recs:
        ra = atoms_set(b, rn)
        if ra <= site_atoms:
            ok, why = key_agrees(hm, b, rn, st, key, tpl)
            if ok:
                return True, "need recorded by `%s` under the same guard (%s)" % (describe_rec(b, rn), why)
            best = why
        elif best is None:
            best = "`%s` runs under %s, which the emission site's guard does not imply" % \
                   (describe_rec(b, rn), sorted(a[0][:70] + ("" if a[1] else " [negated]") for a in ra - site_atoms))
    if best is not None and recs and depth == 0 and any(atoms_set(b, rn) <= site_atoms for rn, _, _ in recs):
        return False, best
    if depth >= 2:
        return False, best or "no recorder for %s" % sorted("%s::%s" % s for s in storages)
    # every direct caller
    callers = []
    for key in {b.path, b.fact.get("trait_item")} - {None}:
        for cb, c in hm.ix.callers_of(key):
            if c.get("resolved") and c["resolved"] != b.path:
                continue
            if not c.get("resolved") and c.get("callee") != b.path:
                continue
            if all(not (cb is x and c is y) for x, y in callers):
                callers.append((cb, c))
    if not callers:
        return False, best or ("the emitting function records no need for %s and has no caller that does" %
                               sorted("%s::%s" % (s[0].split("::")[-1], s[1]) for s in storages))
    whys = []
    for cb, c in callers:
        ok, why = recorded(hm, cb, c, storages, None, depth + 1)
        if not ok:
            return False, "caller `%s` (%s) does not record the need: %s" % (short(cb.path), cb.loc(c), why)
        whys.append(short(cb.path))
    return True, "need recorded by every direct caller (%s)" % ", ".join(sorted(set(whys)))


def describe_rec(b, rn):
    if rn["k"] in ("Call", "MCall"):
        return callee_of(rn).split("::")[-1] + "(..)"
    return "assignment"


def key_agrees(hm, b, rn, st, key, tpl):
    """For a keyed storage (a set of alignments): the key recorded must be the one the emitted name carries."""
    if key is None or tpl is None:
        return True, "flag"
    holes = [v for k, v in tpl if k == "hole"]
    if holes:
        same = b.canon(key, 6) == b.canon(holes[0], 6)
        return same, "recorded key `%s` %s the interpolated `%s`" % (b.canon(key, 3)[:40], "is" if same else "is NOT",
                                                                     b.canon(holes[0], 3)[:40])
    # literal name: the definer must map the recorded literal key to exactly this name
    k = strip(key)
    if k.get("k") != "Lit":
        return False, "the un-suffixed name `%s` is emitted but the recorded key `%s` is not a literal" % \
            (hm.tpl_key(tpl), b.canon(key, 3)[:60])
    want = k.get("v")
    for dp in hm.definer_of(tpl):
        db = hm.prog.bodies[dp]
        for n in db.nodes:
            if n["k"] in ("Call", "MCall") and (n.get("callee") in RAW_CTORS or n.get("callee") == RUST_IDENT):
                t2 = hm.ident_template(db, n["args"][0])
                if t2 and hm.tpl_key(t2) == hm.tpl_key(tpl):
                    for a, pol, node in qq.guard_atoms(db, n):
                        e = strip(node)
                        if pol and e.get("k") == "Binary" and e.get("op") == "==":
                            for x, y in ((e["l"], e["r"]), (e["r"], e["l"])):
                                if strip(y).get("k") == "Lit" and strip(y).get("v") == want:
                                    return True, "key %r selects `%s` in %s" % (want, hm.tpl_key(tpl), short(dp))
    return False, "no branch of the definer maps the recorded key %r to the name `%s`" % (want, hm.tpl_key(tpl))


# =====================================================================================================
# R1.2
# =====================================================================================================
def mangle_model(rep):
    prog = rep.prog
    b = rep.need(prog.fn(RUST_MANGLE), "BindgenContext::rust_mangle")
    name_ids = {p["id"] for i, p in enumerate(b.params) if p.get("k") == "Bind" and p.get("name") != "self"}

    def is_name(e):
        e = strip(e)
        return e.get("k") == "Local" and e.get("id") in name_ids

    words, word_nodes = set(), []
    for n in b.nodes:
        if n["k"] == "Match" and is_name(n["scrut"]):
            for a in n["arms"]:
                if strip(a["body"]).get("v") is False:
                    continue
                for lit in _pat_lits(a["pat"]):
                    words.add(lit)
                    word_nodes.append(n)
        elif n["k"] == "Binary" and n.get("op") == "==":
            for x, y in ((n["l"], n["r"]), (n["r"], n["l"])):
                if is_name(x) and strip(y).get("k") == "Lit" and isinstance(strip(y).get("v"), str):
                    words.add(strip(y)["v"])
                    word_nodes.append(n)
    tested, test_nodes = set(), []
    for n in b.nodes:
        if n["k"] == "MCall" and n.get("name") == "contains" and is_name(n["recv"]) and n["args"]:
            v = strip(n["args"][0]).get("v")
            if isinstance(v, str):
                tested.add(v)
                test_nodes.append(n)
    return b, words, word_nodes, tested, test_nodes


def _pat_lits(p):
    k = p.get("k")
    if k == "PLit" and isinstance(p.get("v"), str):
        return [p["v"]]
    if k == "POr":
        out = []
        for q in p["ps"]:
            out += _pat_lits(q)
        return out
    if k in ("PRef", "PGuard"):
        return _pat_lits(p["p"])
    if k == "Bind" and "sub" in p:
        return _pat_lits(p["sub"])
    return []


@RULES.rule("R1.2", "rust_mangle renames every keyword / bare primitive name and replaces the characters it detects", floor=88)
def r1_2(rep):
    """Breaks: deleting `"gen" |` from the table turns `int gen;` / `struct S { int gen; };` into
    `pub static mut gen` / `pub gen: c_int`, which edition 2024 rejects; deleting `"u8" |` lets
    `typedef unsigned char u8;` shadow the primitive that every `[u8; N]` blob refers to; dropping
    `s = s.replace('$', "_")` lets `int a$b;` reach `Ident::new("a$b_")`."""
    prog = rep.prog
    orc = oracle()
    b, words, word_nodes, tested, test_nodes = mangle_model(rep)
    rep.need(words, "the literal keyword set matched on `name` in rust_mangle")
    loc = b.loc(word_nodes[0]) if word_nodes else b.loc(b.root)
    for grp in ("strict", "reserved"):
        for ed, ws in sorted(orc[grp].items()):
            for w in ws:
                rep.check(w in words, "keyword:" + w,
                          "%s keyword `%s` (edition %s+) must be renamed: an item/field/parameter called `%s` does not parse" %
                          (grp, w, ed, w), loc)
    for w in orc["wildcard"]:
        rep.check(w in words, "keyword:" + w, "`_` is not an identifier", loc)
    for w in orc["primitive_types_emitted_unqualified"]:
        rep.check(w in words, "primitive:" + w,
                  "bindgen writes the primitive type `%s` without a path, so a C item of that name must be renamed" % w, loc)
    # primitives that the tree itself emits bare (derived, so a new `quote!{ f16 }` extends the obligation)
    ix = index(prog)
    prim = set(orc["all_primitive_type_names"])
    emitted = {}
    for p, sites in ix.qsites.items():
        pb = prog.bodies[p]
        for site, root, toks in sites:
            for i, t in enumerate(toks):
                if t[0] == "id" and t[1] in prim:
                    prev = toks[i - 1] if i else None
                    if prev and prev[0] == "p" and prev[1] in ("colon2", "dot"):
                        continue
                    emitted.setdefault(t[1], pb.loc(t[2]))
    pv = Prov(ix)
    for rb, rn, ctor in ix.raw_sites:
        if rb.path in (RUST_IDENT, RUST_IDENT_RAW) or rb.path in EXEMPT_FUNCTIONS:
            continue
        for a in pv.of(rb, rn["args"][0]):
            if len(a) == 1 and a[0][0] in ("lit", "const") and a[0][1] in prim:
                emitted.setdefault(a[0][1], rb.loc(rn))
    rep.need(emitted, "primitive type names emitted by quote! sites")
    for w, where in sorted(emitted.items()):
        rep.check(w in words, "emitted-primitive:" + w,
                  "`%s` is emitted bare (first at %s) and must therefore be in rust_mangle's table" % (w, where), where)
    # ---- the branch that is taken for a hit really changes the name ---------------------------------
    hits = word_nodes + test_nodes
    rep.need(hits, "tests on `name` in rust_mangle")
    conds = []
    for n in b.nodes:
        if n["k"] == "If" and any(x is h for x in b.walk(n["cond"]) for h in hits):
            conds.append(n)
    rep.need(conds, "the `if` in rust_mangle whose condition tests the name")
    top = conds[0]
    all_in = all(any(x is h for x in b.walk(top["cond"])) for h in hits)
    disj = _only_or(top["cond"], hits, b)
    rep.check(all_in and disj, "mangle:disjunction", "every keyword / character test is a disjunct of the one condition that "
              "selects the renaming branch", b.loc(top))
    then = top["then"]
    replaced = {}
    suffix = None
    for n in b.walk(then):
        if n["k"] == "MCall" and n.get("name") == "replace" and len(n["args"]) == 2:
            frm, to = strip(n["args"][0]).get("v"), strip(n["args"][1]).get("v")
            if isinstance(frm, str) and isinstance(to, str):
                # the result must be kept
                par = b.parent[n["_i"]]
                while par is not None and par["k"] in ("AddrOf",):
                    par = b.parent[par["_i"]]
                kept = par is not None and par["k"] in ("Assign", "Let", "MCall", "Call", "Ret")
                replaced[frm] = (to, kept, n)
        elif n["k"] == "MCall" and n.get("name") in ("push", "push_str") and n["args"]:
            v = strip(n["args"][0]).get("v")
            if isinstance(v, str) and v and not qq_atoms_below(b, n, top):
                suffix = (v, n)
    for ch in sorted(set(orc["identifier_chars_to_replace"]) | tested):
        key = "char:" + ch
        if ch not in tested:
            rep.bad(key, "`%s` can occur in a C/C++ spelling but rust_mangle does not look for it" % ch, b.loc(top))
            continue
        if ch not in replaced:
            rep.bad(key, "rust_mangle detects `%s` but does not replace it: the name still is not a Rust identifier" % ch, b.loc(top))
            continue
        to, kept, n = replaced[ch]
        rep.check(kept and bool(to) and all(re.match(r"[A-Za-z0-9_]", c) for c in to), key,
                  "`%s` is replaced by %r and the result is kept" % (ch, to), b.loc(n))
    rep.check(suffix is not None and all(re.match(r"[A-Za-z0-9_]", c) for c in suffix[0]) and
              all((w + suffix[0]) not in words for w in words), "mangle:suffix",
              "an identifier-legal suffix is appended unconditionally in the renaming branch, and no renamed keyword is "
              "itself in the table (%r)" % (suffix[0] if suffix else None), b.loc(then))
    # the renamed string is what is returned
    rets = [n for n in b.walk(then) if n["k"] == "Ret"]
    ok_ret = False
    for r in rets:
        e = peel(r.get("e") or {})
        if e.get("k") == "Local" and suffix is not None and strip(suffix[1]["recv"]).get("id") == e.get("id"):
            ok_ret = True
    tail_then = then.get("tail")
    if tail_then is not None and suffix is not None:
        e = peel(tail_then)
        if e.get("k") == "Local" and strip(suffix[1]["recv"]).get("id") == e.get("id"):
            ok_ret = True
    rep.check(ok_ret, "mangle:returns-renamed", "the renaming branch returns the string it modified", b.loc(then))
    # rust_ident = rust_ident_raw(rust_mangle(name))
    rb = rep.need(prog.fn(RUST_IDENT), "BindgenContext::rust_ident")
    tail = strip(rb.root.get("tail") or {})
    good = tail.get("k") in ("Call", "MCall") and (RUST_IDENT_RAW in callees_of(tail) or IDENT_NEW in callees_of(tail))
    if good:
        arg = peel(tail["args"][0])
        good = arg.get("k") in ("Call", "MCall") and RUST_MANGLE in callees_of(arg)
    rep.check(good, "rust_ident:mangles", "rust_ident builds its Ident from rust_mangle(name)", rb.loc(rb.root))
    rep.note("table size", len(words))
    rep.note("not in oracle (harmless extras)", sorted(words - orc["keywords"] - set(orc["primitive_types_emitted_unqualified"]) - {"_"}))


def qq_atoms_below(b, n, top):
    """guard atoms of n that are introduced below the `then` branch of `top`."""
    mine = qq.guard_atoms(b, n)
    base = qq.guard_atoms(b, top["then"])
    return [a for a in mine if (a[0], a[1]) not in {(x[0], x[1]) for x in base}]


def _only_or(cond, hits, b):
    """every hit is reachable from cond through `||` (and brace-only blocks) only."""
    for h in hits:
        x = h
        while x is not cond:
            p = b.parent[x["_i"]]
            if p is None:
                return False
            if not ((p["k"] == "Binary" and p["op"] == "||") or (p["k"] == "Block" and not p.get("stmts"))):
                return False
            x = p
    return True


# =====================================================================================================
# R1.3
# =====================================================================================================
@RULES.rule("R1.3", "identifiers built without mangling are fed by sanitised sources only", floor=80)
def r1_3(rep):
    """Breaks: `ctx.rust_ident_raw(field_name)` fed by `self.name()` instead of `rust_mangle(name)` turns
    `struct S { int type; };` into `pub type: c_int`.  Accepted source kinds are frozen in ACCEPTED_SOURCES;
    everything else (raw C spellings such as Type::name / Function::name / FieldData::name, option strings,
    callback results, anything the evaluator cannot follow) is a violation at a non-mangling site."""
    prog = rep.prog
    ix = index(prog)
    orc = oracle()
    forbidden = orc["keywords"] | {"_"}
    pv = Prov(ix)
    rep.need(ix.raw_sites, "calls of Ident::new / rust_ident_raw / format_ident!")
    counts = {}
    for b, n, ctor in sorted(ix.raw_sites, key=lambda x: (x[0].path, x[1]["_i"])):
        fn = short(b.path)
        cname = {IDENT_NEW: "Ident::new", RUST_IDENT_RAW: "rust_ident_raw", MK_IDENT: "format_ident!"}[ctor]
        if b.path in (RUST_IDENT_RAW, RUST_IDENT):
            # the two wrappers themselves: their callers are the sites
            rep.ok("raw:%s@%s" % (cname, fn), "wrapper: its call sites are instances of this rule", b.loc(n))
            continue
        if b.path in EXEMPT_FUNCTIONS:
            rep.ok("raw:%s@%s" % (cname, fn), "exempt: " + EXEMPT_FUNCTIONS[b.path], b.loc(n))
            continue
        alts = pv.of(b, n["args"][0])
        kinds = sorted({k for a in alts for k, _ in flatten_parts(a)})
        base = "raw:%s@%s(%s)" % (cname, fn, "+".join(kinds))
        counts[base] = counts.get(base, 0) + 1
        key = base if counts[base] == 1 else "%s#%d" % (base, counts[base])
        problems = []
        for a in [x for a0 in alts for x in expand_appends(a0)]:
            leaves = flatten_parts(a)
            bad = [(k, d) for k, d in leaves if k not in ACCEPTED_SOURCES]
            if bad:
                problems.append("unsanitised source %s in `%s`" % (", ".join("%s:%s" % x for x in bad), describe(a)))
                continue
            for k, d in leaves:
                if k in ("lit", "const") and not re.match(r"^[A-Za-z0-9_]*$", d or ""):
                    problems.append("literal %r contains characters that are illegal in an identifier" % d)
            single = len(a) == 1 and a[0][0] in ("mangled", "canonical", "ident")
            if single:
                continue
            if a and a[0][0] == "int":
                problems.append("`%s` starts with digits" % describe(a))
            rx = re.compile(shape_regex(a))
            hit = sorted(w for w in forbidden if rx.match(w))
            if hit:
                problems.append("`%s` can spell the keyword(s) %s" % (describe(a), hit))
        rep.check(not problems, key, "; ".join(problems) if problems else
                  " | ".join(sorted({describe(a) for a in alts}))[:300], b.loc(n))
    # mangling sites are safe whatever they are fed with
    for b, n in ix.mangling_sites:
        rep.ok("mangling:rust_ident@%s" % short(b.path), "rust_ident mangles its argument", b.loc(n))
    rep.note("sites", {"raw": len(ix.raw_sites), "rust_ident": len(ix.mangling_sites)})
    rep.note("accepted source kinds", ACCEPTED_SOURCES)
    # ---- canonical names end in rust_mangle ------------------------------------------------------------
    rc = rep.need(prog.fn("ir::item::Item::real_canonical_name"), "Item::real_canonical_name")
    exits = []
    tail = rc.root.get("tail")
    if tail is not None:
        exits.append(("tail", tail))
    for n in rc.nodes:
        if n["k"] == "Ret" and n.get("e") is not None and not any(a["k"] == "Closure" for a in rc.ancestors(n)):
            exits.append(("return", n["e"]))
    rep.need(exits, "return paths of real_canonical_name")
    n_ok = 0
    for how, e in exits:
        pe = peel(e)
        if pe.get("k") in ("Call", "MCall") and RUST_MANGLE in callees_of(pe):
            rep.ok("canonical-name:mangled-exit", "the computed name leaves through rust_mangle", rc.loc(e))
            n_ok += 1
            continue
        atoms = qq.guard_atoms(rc, e)
        why = None
        for a, pol, node in atoms:
            if pol and "is_template_param" in a:
                why = ("template-param", "named template parameters are returned unmangled; every site that turns such a "
                       "name into tokens uses rust_ident (checked below)")
            if pol and "use_instead_of" in a:
                why = ("replaces-annotation", "the name comes from a `replaces=\"..\"` annotation written by the user")
        if why is None:
            rep.bad("canonical-name:unmangled-exit", "real_canonical_name returns `%s` without rust_mangle" %
                    rc.canon(e, 3)[:80], rc.loc(e))
        else:
            rep.ok("canonical-name:exit:" + why[0], why[1], rc.loc(e))
    rep.check(n_ok >= 1, "canonical-name:mangled-exit", "at least one exit of real_canonical_name goes through rust_mangle",
              rc.loc(rc.root))
    # canonical_name() of an Item delegates to real_canonical_name (cached)
    cn = prog.impl_fn("ir::item::ItemCanonicalName", "ir::item::Item", "canonical_name")
    rep.need(cn, "<Item as ItemCanonicalName>::canonical_name")
    reach = prog.reachable([cn.path], stop=lambda p: p == "ir::item::Item::real_canonical_name")
    rep.check("ir::item::Item::real_canonical_name" in reach, "canonical-name:delegates",
              "<Item as ItemCanonicalName>::canonical_name computes its value with real_canonical_name", cn.loc(cn.root))
    # template parameters: the unmangled exit is only sound when TypeParam names are turned into tokens by rust_ident
    tp_sites = 0
    for b in prog.bodies.values():
        if "codegen" not in b.path:
            continue
        for n in b.nodes:
            if n["k"] == "Match":
                for i, a in enumerate(n["arms"]):
                    pvs = _variants(a["pat"])
                    if pvs == {"ir::ty::TypeKind::TypeParam"}:
                        body = a["body"]
                        idents = [c for c in b.calls(None, body) if c.get("callee") in RAW_CTORS + (RUST_IDENT,)]
                        if not idents:
                            continue
                        tp_sites += 1
                        rep.check(all(c.get("callee") == RUST_IDENT for c in idents),
                                  "template-param:mangled@%s" % short(b.path),
                                  "a TypeParam name becomes an identifier through rust_ident", b.loc(body))
    rep.check(tp_sites >= 1, "template-param:sites", "found %d site(s) that emit a TypeParam name" % tp_sites)


def _variants(p):
    k = p.get("k")
    if k in ("PStruct", "PTupleStruct", "PPath"):
        return {p["res"].get("def")}
    if k == "POr":
        s = set()
        for q in p["ps"]:
            s |= _variants(q)
        return s
    if k in ("PRef", "PGuard"):
        return _variants(p["p"])
    if k == "Bind" and "sub" in p:
        return _variants(p["sub"])
    return {"_"}


# =====================================================================================================
# R1.4  seen-sets and overload counters
# =====================================================================================================
def _method(prog, name):
    return [p for p, b in prog.bodies.items() if (b.fact.get("impl_self") or "").split("<")[0] == CR and p.endswith("::" + name)]


@RULES.rule("R1.4", "seen-sets and overload counters are consulted before a function / variable / method name is emitted", floor=14)
def r1_4(rep):
    """Breaks: without the `seen_var` early return, `extern int bar; extern int bar;` yields two `pub static bar`
    (E0428); without the overload suffix, C++ `void f(int); void f(char);` yields two `pub fn f`; if
    Method::codegen_method does not append the same number as Function::codegen, `S::f1` calls an undeclared `S_f`."""
    prog = rep.prog
    ix = index(prog)
    # ---- seen / saw pairs ------------------------------------------------------------------------------
    for what, query, record in (("function", "seen_function", "saw_function"), ("var", "seen_var", "saw_var")):
        qs = [c for p in _method(prog, query) for c in ix.callers_of(p)]
        rep.need(qs, "calls of CodegenResult::%s" % query)
        for b, c in qs:
            fn = short(b.path)
            # the query guards an early exit
            exits = _guards_early_exit(b, c)
            rep.check(bool(exits), "%s:seen-exits@%s" % (what, fn),
                      "`if result.%s(name) { return }` skips a second declaration of the same %s" % (query, what), b.loc(c))
            # followed by the record of the same key, unconditionally after the check
            recs = [x for x in b.calls() if any(callee in _method(prog, record) for callee in callees_of(x))]
            same = [x for x in recs if b.canon(x["args"][0], 6) == b.canon(c["args"][0], 6)]
            okg = False
            for x in same:
                extra = atoms_set(b, x) - atoms_set(b, c)
                okg = okg or all((not pol) and query in a for a, pol in extra)
            rep.check(bool(same) and okg, "%s:recorded@%s" % (what, fn),
                      "`%s` records the same key right after the check (keys: %s)" %
                      (record, [b.canon(x["args"][0], 2)[:50] for x in recs]), b.loc(c))
            # the emission happens after the check
            pushes = [x for x in b.calls() if x["k"] == "MCall" and x.get("name") in ("push", "push_func", "push_var", "extend")
                      and (b.ty(x["recv"]) or "").replace("&mut ", "").startswith(("codegen::CodegenResult", "codegen::dyngen::DynamicItems"))]
            rep.need(pushes, "emission (`result.push(..)`) in %s" % b.path)
            late = [x for x in pushes if x["_i"] < c["_i"]]
            rep.check(not late, "%s:emit-after-check@%s" % (what, fn), "every emission follows the seen-check", b.loc(c))
    # ---- the key that is deduplicated / counted is the name that is emitted -------------------------------
    for b, c in [c for p in _method(prog, "seen_var") for c in ix.callers_of(p)]:
        ids = [x for x in b.calls() if x.get("callee") == RUST_IDENT and b.canon(x["args"][0], 6) == b.canon(c["args"][0], 6)]
        rep.check(bool(ids), "var:key-is-emitted-name@%s" % short(b.path),
                  "the key of the seen-set (`%s`) is the string that becomes the item's identifier" %
                  b.canon(c["args"][0], 2)[:60], b.loc(c))
    # ---- overload numbers ------------------------------------------------------------------------------
    on = [c for p in _method(prog, "overload_number") for c in ix.callers_of(p)]
    rep.need(on, "calls of CodegenResult::overload_number")
    for b, c in on:
        fn = short(b.path)
        par = b.parent[c["_i"]]
        lid = par["pat"].get("id") if par is not None and par["k"] == "Let" and par["pat"].get("k") == "Bind" else None
        arg = strip(c["args"][0])
        ok, detail = _suffix_applied(b, lid, arg)
        rep.check(ok, "overload:suffix@%s" % fn, detail, b.loc(c))
        # the counted (and suffixed) string is what becomes the identifier
        if arg.get("k") == "Local":
            ctors = [x for x in b.calls() if x.get("callee") in RAW_CTORS + (RUST_IDENT,) and _flows_from(b, x["args"][0], arg["id"])]
            rep.check(bool(ctors), "overload:counted-name-is-emitted@%s" % fn,
                      "the string whose overloads are counted (`%s`) flows into the identifier constructor" % arg.get("name"),
                      b.loc(c))
    # ---- the name Function::codegen emits is the one Method::codegen_method calls ----------------------
    fcg = prog.impl_fn("codegen::CodeGenerator", "ir::function::Function", "codegen")
    rep.need(fcg, "<Function as CodeGenerator>::codegen")
    users = [(b, c) for b, c in ix.callers_of(fcg.path) if b.path != "<ir::item::Item as codegen::CodeGenerator>::codegen"]
    users += [(b, c) for b, c in ix.callers_of("codegen::CodeGenerator::codegen")
              if c.get("resolved") == fcg.path and all(c is not y for _, y in users) and
              b.path != "<ir::item::Item as codegen::CodeGenerator>::codegen"]
    for b, c in users:
        fn = short(b.path)
        # the returned Option<u32> is bound and unwrapped to `times_seen`
        lid = _bound_local(b, c)
        ts = _unwrapped(b, lid) if lid is not None else None
        if ts is None:
            rep.bad("overload:method-agrees@%s" % fn, "the overload number returned by Function::codegen is discarded: a wrapper "
                    "generated here would call the un-suffixed name", b.loc(c))
            continue
        names = [x for x in b.calls() if x.get("callee") == RUST_IDENT]
        good = False
        detail = "no rust_ident(canonical_name + overload number) found"
        for x in names:
            a = peel(x["args"][0])
            if a.get("k") != "Local":
                continue
            init = b.local_def.get(a["id"])
            src = b.canon(a, 4)
            if "canonical_name" not in src:
                continue
            ok, d = _suffix_applied(b, ts, a)
            if ok:
                good = True
                detail = "`%s` = canonical_name + the overload number of Function::codegen" % a.get("name")
        rep.check(good, "overload:method-agrees@%s" % fn, detail, b.loc(c))
    # ---- method names inside one impl block -------------------------------------------------------------
    mm = [b for b in prog.bodies.values() if b.path.endswith("::codegen_method")]
    rep.need(mm, "Method::codegen_method")
    for b in mm:
        fn = short(b.path)
        sets = [p for p in b.params if p.get("k") == "Bind" and "HashSet<std::string::String" in (prog.types[p["t"]] if p.get("t") is not None else "")]
        rep.need(sets, "the `method_names` set parameter of codegen_method")
        sid = sets[0]["id"]
        contains = [c for c in b.calls() if c["k"] == "MCall" and c.get("name") == "contains" and strip(c["recv"]).get("id") == sid]
        inserts = [c for c in b.calls() if c["k"] == "MCall" and c.get("name") == "insert" and strip(c["recv"]).get("id") == sid]
        rep.check(len(contains) >= 2 and len(inserts) == 1, "method:unique-name@%s" % fn,
                  "the chosen method name is tested against the names already used in the impl block (also inside the "
                  "renaming loop) and then inserted", b.loc(b.root))
        if inserts:
            ins = inserts[0]
            nm = peel(ins["args"][0])
            emitted = [x for x in b.calls() if x.get("callee") == RUST_IDENT and
                       peel(x["args"][0]).get("k") == "Local" and peel(x["args"][0]).get("id") == nm.get("id")]
            extra = [a for a in qq.guard_atoms(b, ins) if a[1] and "contains" in a[0]]
            rep.check(bool(emitted) and not extra, "method:inserted-name-is-emitted@%s" % fn,
                      "the inserted name is the one that becomes the method's identifier, and it is inserted on every path",
                      b.loc(ins))
            # the loop keeps counting while the candidate is taken
            loops = [n for n in b.nodes if n["k"] in ("While", "Loop") and any(x is c for c in contains for x in b.walk(n))]
            rep.check(bool(loops), "method:rename-loop@%s" % fn, "a taken name is renamed in a loop that re-tests the candidate",
                      b.loc(b.root))


def _guards_early_exit(b, c):
    """the bool result of call c is the condition of an `if .. { <diverges> }` without else — directly, or through an
    immutable local it is bound to."""
    def cond_of_exit(n):
        par = b.parent[n["_i"]]
        child = n
        while par is not None and par["k"] in ("AddrOf", "Cast") or (par is not None and par["k"] == "Block" and not par.get("stmts")):
            child, par = par, b.parent[par["_i"]]
        return par is not None and par["k"] == "If" and par["cond"] is child and b.diverges(par["then"]) and "else" not in par

    if cond_of_exit(c):
        return True
    par = b.parent[c["_i"]]
    if par is not None and par["k"] == "Let" and par["pat"].get("k") == "Bind" and par["pat"]["id"] not in b.local_assigned \
            and par["pat"]["id"] not in b.local_mut:
        lid = par["pat"]["id"]
        return any(n["k"] == "Local" and n["id"] == lid and cond_of_exit(n) for n in b.nodes)
    return False


def _flows_from(b, e, lid, depth=0):
    """does the value of expression e depend on local `lid` (through immutable lets and destructuring)?"""
    if depth > 6:
        return False
    for x in b.walk(e):
        if x["k"] == "Local":
            if x["id"] == lid:
                return True
            d = b.local_def.get(x["id"])
            if d and d[0][0] in ("let", "letcond") and d[0][1].get("init") is not None:
                if _flows_from(b, d[0][1]["init"], lid, depth + 1):
                    return True
    return False


def _bound_local(b, c):
    par = b.parent[c["_i"]]
    while par is not None and par["k"] in ("AddrOf", "Try"):
        par = b.parent[par["_i"]]
    if par is not None and par["k"] == "Let" and par["pat"].get("k") == "Bind":
        return par["pat"]["id"]
    return None


def _unwrapped(b, lid):
    """local bound by `let Some(x) = <lid> else {..}` / `if let Some(x) = <lid>` / `<lid>?`; or lid itself when it is u32."""
    for x, d in b.local_def.items():
        origin, path, pat = d
        if origin[0] in ("let", "letcond") and path and _is_wrapper_path(path[-1]):
            init = origin[1].get("init")
            if init is not None and strip(init).get("k") == "Local" and strip(init)["id"] == lid:
                return x
    return None


def _suffix_applied(b, num_id, name_expr):
    """`if <num> > 0 { write!(&mut <name>, "{<num>}") }` (or push_str of its Display) on the local `name_expr`."""
    if num_id is None:
        return False, "the overload number is not bound to a local"
    name_expr = strip(name_expr)
    name_id = name_expr.get("id") if name_expr.get("k") == "Local" else None
    for n in b.nodes:
        if n["k"] == "MCall" and n.get("name") in ("write_fmt", "push_str"):
            r = strip(n["recv"])
            if r.get("k") != "Local":
                continue
            uses_num = any(x["k"] == "Local" and x["id"] == num_id for x in b.walk(n))
            if not uses_num:
                continue
            guard = [a for a in qq.guard_atoms(b, n) if a[1] and re.search(r"> lit:0\)$|!= lit:0\)$", a[0])
                     and any(x["k"] == "Local" and x["id"] == num_id for x in b.walk(a[2]))]
            if not guard:
                continue
            if name_id is not None and r["id"] == name_id:
                return True, "the overload number is appended to the counted name when it is > 0"
            if name_id is None:
                # the counter was keyed by an expression: the appended-to local must be initialised by the same expression
                init = b.local_init(r["id"])
                d = b.local_def.get(r["id"])
                init = d[0][1].get("init") if d and d[0][0] == "let" else None
                if init is not None and b.canon(init, 6) == b.canon(name_expr, 6):
                    return True, "the overload number is appended to the counted name when it is > 0"
            else:
                # same local by definition (a `&`-reborrow of the counted local)
                d = b.local_def.get(r["id"])
                if d and d[0][0] == "let" and d[0][1].get("init") is not None and \
                        b.canon(d[0][1]["init"], 6) == b.canon(name_expr, 6) and r["id"] == name_id:
                    return True, "the overload number is appended to the counted name when it is > 0"
    return False, "the overload number is never appended (under `> 0`) to the name it was counted for"


def _path_head(toks, i):
    """first segment of the `a::b::c` path that ends at token i: None when the path is absolute (`::a::b`),
    '#' when it starts with an interpolation, else the head identifier."""
    j = i
    while j >= 2 and toks[j - 1][0] == "p" and toks[j - 1][1] == "colon2" and toks[j - 2][0] in ("id", "i"):
        j -= 2
    if j >= 1 and toks[j - 1][0] == "p" and toks[j - 1][1] == "colon2":
        return None
    if toks[j][0] == "i":
        return "#"
    return toks[j][1]


# =====================================================================================================
# R1.5  std items are named by absolute path
# =====================================================================================================
@RULES.rule("R1.5", "generated code names std items by absolute path (prelude names can be shadowed by C items)", floor=25)
def r1_5(rep):
    """A prelude name (`Default`, `Result`, `Clone`, `Some`, ...) written without a leading `::` resolves to a C item
    of the same name when the header declares one: `struct Default { int x; }; struct B { char a[100]; };` with
    `--opaque-type B` yields `impl<T: Copy + Default, const N: usize> Default for __BindgenOpaqueArray<[T; N]>`
    -> E0404 "expected trait, found struct `Default`".  Primitive type names are protected the other way round
    (rust_mangle renames the C item, R1.2); prelude names are not in that table, so each bare use must be
    `::core::..`/`::std::..` qualified.  Names inside `#[derive(..)]` are macro-namespace and exempt."""
    prog = rep.prog
    ix = index(prog)
    orc = oracle()
    tns, vns = set(orc["prelude_type_namespace"]), set(orc["prelude_value_namespace"])
    b0, words, _, _, _ = mangle_model(rep)
    n_sites = 0
    found, good = {}, {}
    for p, sites in sorted(ix.qsites.items()):
        b = prog.bodies[p]
        for site, root, toks in sites:
            n_sites += 1
            stack = []
            for i, t in enumerate(toks):
                if t[0] == "(":
                    attr = i >= 1 and toks[i - 1][0] == "id" and toks[i - 1][1] in ("derive",)
                    stack.append(attr or (bool(stack) and stack[-1]))
                    continue
                if t[0] == ")":
                    if stack:
                        stack.pop()
                    continue
                if t[0] != "id" or (t[1] not in tns and t[1] not in vns):
                    continue
                prev = toks[i - 1] if i else None
                nxt = toks[i + 1] if i + 1 < len(toks) else None
                if stack and stack[-1]:
                    continue
                if prev and prev[0] == "p" and prev[1] in ("colon2",):
                    head = _path_head(toks, i)
                    if head is None or head in ("Self", "self", "crate", "super", "#"):
                        good.setdefault((t[1], b.path), []).append(b.loc(t[2]))
                    else:
                        found.setdefault((t[1] + " via relative path `%s::`" % head, b.path), []).append(b.loc(t[2]))
                    continue
                if prev and prev[0] == "p" and prev[1] == "dot":
                    continue  # method / field name
                if prev and prev[0] == "id" and prev[1] in ("fn", "struct", "enum", "type", "trait", "mod", "let", "const", "static"):
                    continue  # a definition of that name, not a use
                if nxt and nxt[0] == "p" and nxt[1] == "colon" and t[1] in vns:
                    continue  # field / argument name
                if t[1] in words:
                    continue  # the C item would be renamed instead
                found.setdefault((t[1], b.path), []).append(b.loc(t[2]))
    rep.need(n_sites, "quote! sites")
    for (name, path), locs in sorted(found.items()):
        rel = None
        if " via " in name:
            name, rel = name.split(" ")[0], name.split("`")[1]
        ns = "value" if name in vns else "type"
        what = "struct/typedef/enum" if ns == "type" else "function/variable/enumerator"
        if rel:
            rep.bad("unqualified:%s(relative)@%s" % (name, short(path)),
                    "`%s..::%s` is emitted as a relative path (%d place(s): %s): it resolves through whatever `%s` names in the "
                    "generated module (a C++ `namespace std` under --enable-cxx-namespaces, any C item called `%s`) and "
                    "ignores --use-core" % (rel, name, len(locs), ", ".join(locs[:4]), rel.rstrip(":"), rel.rstrip(":")), locs[0])
        else:
            rep.bad("unqualified:%s@%s" % (name, short(path)),
                    "`%s` is emitted without a leading `::` (%d place(s): %s); a C %s named `%s` in the same module shadows "
                    "the prelude item and the generated code no longer compiles" %
                    (name, len(locs), ", ".join(locs[:4]), what, name), locs[0])
    for (name, path), locs in sorted(good.items()):
        if (name, path) not in found and not any(k[0].startswith(name + " via") and k[1] == path for k in found):
            rep.ok("qualified:%s@%s" % (name, short(path)), "%d use(s), all path-qualified" % len(locs), locs[0])
    rep.note("quote sites scanned", n_sites)


# R1.6 — added by the main session.  C01's fifth mechanism ("the allowlist closure makes every referenced type part of
# codegen_items") is decided by C09's rules; an independently seeded C01-breaking change (function-signature edges followed only
# when functions are generated) was caught there but not here, so the two closure rules are shared.
def _r1_6(rep):
    import c09
    c09.r9_6(rep)
    c09.r9_1(rep)
    c09.r9_7(rep)


RULES.rule("R1.6", "every type a generated item names is generated too: edge enumeration, codegen edge table and traversal are complete (shared with C09)", floor=60)(_r1_6)


# R1.7 — added by the main session.  C01's second mechanism ("derive eligibility analyses gate every #[derive]") is decided by
# C08's table rules; an independently seeded C01-breaking change (the Vector arm of the derive analysis no longer looks at the
# element type, so a float vector member gets #[derive(Hash)]) was caught there but not here.
def _r1_7(rep):
    import c08
    c08.r8_5(rep)
    c08.r8_1(rep)


RULES.rule("R1.7", "every emitted #[derive] is backed by the derive analysis applied to the right constituents (shared with C08 R8.1/R8.5)", floor=200)(_r1_7)


def _r1_8(rep):
    """Which generic parameters a template gets is decided by the used-template-parameters fixed point: when an instantiation is not
    re-queued after its definition learns that it uses `T`, `pub struct Table { pub head: Row<T> }` is emitted without `<T>`
    (E0425: cannot find type `T`).  The re-queue edges are C07's R7.1, run here so that C01's own check reports them."""
    import c07
    c07.r7_1(rep)


RULES.rule("R1.8", "generic parameters of emitted templates come from a complete fixed point (shared with C07 R7.1)", floor=40)(_r1_8)


AV = "codegen::AliasVariation"


def _alias_styles_of_site(b, node):
    """the set of AliasVariation variants under which `node` executes, read from its guard chain (match arms, `matches!`, `==`);
    None if the chain does not mention the alias style."""
    from hir import pat_variants
    allv = {AV + "::TypeAlias", AV + "::NewType", AV + "::NewTypeDeref"}
    cur = None
    chain = []
    for pol, kind, g in b.guards(node):
        if kind == "cond":
            # a true conjunction makes every conjunct true, a false disjunction makes every disjunct false
            todo = [strip(g)]
            while todo:
                e = todo.pop()
                if e.get("k") == "Binary" and e["op"] == ("&&" if pol else "||"):
                    todo += [strip(e["l"]), strip(e["r"])]
                else:
                    chain.append((pol, kind, e))
        else:
            chain.append((pol, kind, g))
    for pol, kind, g in chain:
        s = None
        if kind == "arm":
            m, i = g
            if (b.ty(m["scrut"]) or "").replace("&", "") == AV:
                s = {v for v in pat_variants(m["arms"][i]["pat"]) if v.startswith(AV)}
                if "_" in pat_variants(m["arms"][i]["pat"]):
                    s = allv - {v for a in m["arms"][:i] for v in pat_variants(a["pat"])}
        elif kind == "cond":
            e = strip(g)
            neg = False
            while e.get("k") == "Unary" and e.get("op") == "!":
                e = strip(e["e"])
                neg = not neg
            if e.get("k") == "Match" and (b.ty(e["scrut"]) or "").replace("&", "") == AV:
                s = set()
                for a in e["arms"]:
                    if strip(a["body"]).get("k") == "Lit" and strip(a["body"]).get("v") is True:
                        s |= {v for v in pat_variants(a["pat"]) if v.startswith(AV)}
            elif e.get("k") == "Binary" and e["op"] in ("==", "!="):
                sides = [strip(e["l"]), strip(e["r"])]
                vs = [x.get("def") for x in sides if x.get("k") == "Path" and str(x.get("def", "")).startswith(AV + "::")]
                if vs and any((b.ty(x) or "").replace("&", "") == AV for x in sides):
                    s = set(vs)
                    if e["op"] == "!=":
                        neg = not neg
            if s is not None and (neg != (not pol)):
                s = allv - s
        if s is not None:
            cur = s if cur is None else (cur & s)
    return cur


def _only_alias(m):
    """a `matches!(kind, ..)` expansion that is true exactly for TypeKind::Alias."""
    from hir import pat_variants
    true_vs = {v for a in m["arms"] if strip(a["body"]).get("v") is True for v in pat_variants(a["pat"])}
    return _alias_kinds(true_vs)


def _alias_kinds(vs):
    """only typedef kinds, the plain one among them"""
    return "ir::ty::TypeKind::Alias" in vs and vs <= {"ir::ty::TypeKind::Alias", "ir::ty::TypeKind::TemplateAlias"}


def _r1_9(rep):
    """`pub struct Handle(pub c_uint);` is emitted for `--new-type-alias` AND `--new-type-alias-deref`; a constant of such a type
    has to be built with the tuple constructor under exactly the same styles, otherwise
    `pub const INVALID_HANDLE: Handle = 4294967295;` does not type-check (E0308)."""
    prog = rep.prog
    tb = rep.need(prog.impl_fn("codegen::CodeGenerator", "ir::ty::Type", "codegen"), "<Type as CodeGenerator>::codegen")
    vb = rep.need(prog.impl_fn("codegen::CodeGenerator", "ir::var::Var", "codegen"), "<Var as CodeGenerator>::codegen")
    structs = set()
    n_sites = 0
    for q in qq.quote_sites(tb):
        t = q.tokens
        if "struct" in t and "#rust_name" in t:
            s = _alias_styles_of_site(tb, q.root)
            if s is not None:
                n_sites += 1
                structs |= s
    rep.need(n_sites > 0, "the `pub struct #rust_name` emission of alias types under a match on the alias style")
    wraps = None
    for q in qq.quote_sites(vb):
        t = [x for x in q.tokens if x.strip()]
        if len(t) >= 4 and t[0].startswith("#") and t[1] == "(" and t[2].startswith("#") and t[3] == ")":
            s = _alias_styles_of_site(vb, q.root)
            if s is not None:
                wraps = s if wraps is None else (wraps | s)
    rep.need(wraps is not None, "the `#ty(#val)` constructor wrapping of constants under a test of the alias style in Var::codegen")
    sh = lambda s: sorted(x.split("::")[-1] for x in s)
    rep.check(wraps == structs, "const-constructor-styles", "constants are wrapped for %s; aliases are tuple structs for %s" % (sh(wraps), sh(structs)), vb.loc(vb.root))
    rep.note("tuple_struct_styles", sh(structs))
    # `Item::alias_style` answers from the item's NAME and falls back to `--default-alias-style`; it only means something for an
    # item that is a typedef.  Every caller has to know that: `--default-alias-style new_type` otherwise turns
    # `static const unsigned Z = 5;` into `pub const Z: c_uint = c_uint(5);`
    from hir import pat_variants
    n = 0
    for p, b in sorted(prog.bodies.items()):
        for c in b.calls(lambda x: x["k"] == "MCall" and callee_of(x) == "ir::item::Item::alias_style"):
            n += 1
            est = False
            for pol, kind, g in b.guards(c, nested=True):
                if kind == "arm" and pol:
                    m, i = g
                    if _alias_kinds(set(pat_variants(m["arms"][i]["pat"]))):
                        est = True
                elif kind == "cond" and pol:
                    e = strip(g)
                    if e.get("k") == "Match" and _only_alias(e):
                        est = True
                    if any(x["k"] in ("MCall", "Call") and callee_of(x).split("::")[-1] in ("is_alias", "is_type_alias") for x in b.walk(e)):
                        est = True
            # a test on the same statement path: `let is_alias = ..TypeKind::Alias..; if is_alias && matches!(x.alias_style(..)..)`
            for a in b.ancestors(c):
                if a["k"] == "Binary" and a["op"] == "&&":
                    l = strip(a["l"])
                    if l.get("k") == "Local" and b.local_init(l["id"]) is not None:
                        l = strip(b.local_init(l["id"]))
                    if l.get("k") == "Match" and _only_alias(l):
                        est = True
            rep.check(est, "alias-style-only-for-aliases@" + short(p),
                      "Item::alias_style is asked of an item known to be TypeKind::Alias" if est else
                      "Item::alias_style is asked of an item that need not be a typedef: the default style then applies to builtin types too",
                      b.loc(c))
    rep.need(n >= 2, "calls of Item::alias_style (alias emission, constant emission)")


RULES.rule("R1.9", "constants of a newtype alias use the tuple constructor under exactly the styles that emit a tuple struct", floor=3)(_r1_9)


# R1.10 — added by the main session after a seeding agent noticed `[Outer_Inner; 3]` on the unchanged tree.
IMPLICIT_EXEMPT = {
    # (function, discriminator) -> reason.  discriminator: the TypeKind arm the site sits in, "cparam" for a closure parameter receiver, "" otherwise
    ("TryToRustTy::try_to_rust_ty<blanket>", ""): "blanket `id -> item` delegation; whoever holds the id applies the parameters",
    ("Enum::codegen", ""): "the integer representation type of an enum",
    ("TemplateInstantiation::codegen", ""): "an instantiation spells its template arguments explicitly",
    ("Type::codegen", "cparam"): "the template parameters of an alias themselves (TypeKind::TypeParam)",
    ("WithImplicitTemplateParams::with_implicit_template_params", "cparam"): "the parameters themselves",
    ("Type::try_to_rust_ty", "ResolvedTypeRef"): "a type reference: the caller's with_implicit_template_params resolves through type refs",
    ("Var::codegen", ""): "variables of templates are never emitted (early return when all_template_params is not empty)",
    ("utils::fnsig_argument_type", "Pointer"): "the argument is a pointer: the Pointer arm of try_to_rust_ty applies the parameters to the pointee",
}


def _r1_10(rep):
    """A type nested in a class template (`template<class T> struct Outer { struct Inner { T x; }; }`) is emitted as
    `Outer_Inner<T>`: the parameters are implicit in C++ and have to be added wherever the type is named.  The conversion
    `id.try_to_rust_ty(..)` / `to_rust_ty_or_opaque(..)` yields the bare path, so every site that embeds the result in emitted
    syntax has to apply `with_implicit_template_params` (or be exempt for a stated reason); otherwise `Inner arr[3]`,
    `void (*cb)(Inner)` or `Inner flex[]` inside `Outer` name `Outer_Inner` without `<T>` (E0107)."""
    from hir import pat_variants
    prog = rep.prog
    n = 0
    used = set()
    for p, b in sorted(prog.bodies.items()):
        if not (p.startswith("codegen::") or "codegen::" in p):
            continue
        for c in b.nodes:
            if c["k"] != "MCall" or c.get("name") not in ("try_to_rust_ty", "to_rust_ty_or_opaque", "try_to_rust_ty_or_opaque"):
                continue
            rt = (prog.types[c["rt"]] if c.get("rt") is not None else "").replace("&", "")
            if rt not in ("ir::item::Item", "ir::context::ItemId", "ir::context::TypeId"):
                continue
            n += 1
            wrapped = False
            for a in b.ancestors(c):
                if a["k"] == "MCall" and a.get("name") == "with_implicit_template_params":
                    wrapped = True
                if a["k"] in ("Let", "Semi", "ExprStmt", "Block"):
                    if a["k"] == "Let" and a["pat"].get("k") == "Bind" and not wrapped:
                        lid = a["pat"]["id"]
                        uses = [x for x in b.nodes if x["k"] == "Local" and x["id"] == lid]
                        wrapped = bool(uses) and all(
                            any(y["k"] == "MCall" and y.get("name") == "with_implicit_template_params" and strip(y["recv"]) is x
                                for y in b.ancestors(x)) for x in uses)
                    break
            fn = short(p)
            if p.startswith("<T as codegen::TryToRustTy>"):
                fn = "TryToRustTy::try_to_rust_ty<blanket>"
            elif "WithImplicitTemplateParams" in p:
                fn = "WithImplicitTemplateParams::with_implicit_template_params"
            else:
                fn = re.sub(r"^<(.+?) as .+?>::", lambda m: m.group(1).split("::")[-1].split("<")[0] + "::", re.sub(r"::<[^<>]*>", "", p))
                fn = "::".join(fn.split("::")[-2:]) if fn.count("::") > 1 else fn
            arms = [[v.split("::")[-1] for v in pat_variants(g[0]["arms"][g[1]]["pat"])] for pol, k, g in b.guards(c) if k == "arm" and
                    (b.ty(g[0]["scrut"]) or "").replace("&", "").endswith("TypeKind")]
            r = strip(c["recv"])
            d = b.local_def.get(r.get("id")) if r.get("k") == "Local" else None
            disc = "cparam" if d and d[0][0] == "cparam" else ("|".join(arms[-1]) if arms else "")
            key = "%s/%s" % (fn, disc) if disc else fn
            if wrapped:
                rep.ok("implicit-params:" + key, "with_implicit_template_params is applied", b.loc(c))
                continue
            why = IMPLICIT_EXEMPT.get((fn, disc))
            if why is None and disc:
                why = IMPLICIT_EXEMPT.get((fn, disc.split("|")[0])) if (fn, disc.split("|")[0]) in IMPLICIT_EXEMPT and "|" not in disc else None
            if why is not None:
                used.add((fn, disc))
                rep.ok("implicit-params:" + key, "exempt: " + why, b.loc(c))
            else:
                rep.bad("implicit-params:" + key, "`%s.%s(..)` is embedded without with_implicit_template_params: a type nested in a class template is "
                        "named without its generic arguments here" % (b.canon(c["recv"], 2)[:50], c["name"]), b.loc(c))
    rep.need(n >= 18, "conversions of nested item ids to Rust types in codegen")
    # the reason given for Var::codegen is checked, not believed
    vb = prog.impl_fn("codegen::CodeGenerator", "ir::var::Var", "codegen")
    if vb is not None:
        early = False
        for x in vb.nodes:
            if x["k"] == "If" and vb.diverges(x["then"]) and "all_template_params" in vb.canon(x["cond"], 6) and "is_empty" in vb.canon(x["cond"], 6):
                early = True
        rep.check(early, "implicit-params:Var::codegen:templates-skipped", "Var::codegen returns early for variables with template parameters", vb.loc(vb.root))


RULES.rule("R1.10", "nested types of class templates are named with their implicit generic arguments at every embedding site", floor=19)(_r1_10)


def _r1_11(rep):
    """A function whose ABI the selected Rust target cannot name must not be emitted.  `FunctionSig::abi` applies `--override-abi`
    first and gates the RESULT; gating the ABI clang reported instead lets `--override-abi f=vectorcall` emit
    `unsafe extern "vectorcall"` for a stable target (E0658).  The gate is C14's R14.3, run here so that C01's own check reports
    it."""
    import c14
    c14.r14_3(rep)


RULES.rule("R1.11", "constructs a target cannot compile are gated on what is actually emitted (shared with C14 R14.3)", floor=40)(_r1_11)


def _r1_12(rep):
    """A typedef that has the same Rust name as the enum it aliases is not generated (`typedef enum foo {..} foo;`); a use of it
    under `--default-enum-style moduleconsts` must then be spelled `foo::Type`, through the enum's module.
    `Item::is_constified_enum_module` decides that hop, `Type::codegen` decides whether the typedef exists; both have to compare
    the names bindgen EMITS (canonical name / path).  Comparing C spellings (`Type::name()`) makes
    `namespace ui { typedef gfx::Color Color; }` hop although `ui_Color` is generated as an alias: uses are spelled
    `ui_Color::Type` (E0223)."""
    prog = rep.prog
    b = rep.need(prog.fn("ir::item::Item::is_constified_enum_module"), "Item::is_constified_enum_module")
    rec = [c for c in b.nodes if c["k"] in ("MCall", "Call") and str(c.get("resolved") or c.get("callee") or "") == b.path]
    rep.need(rec, "the hop through a same-named alias in is_constified_enum_module")
    for c in rec:
        tests = [g for pol, kind, g in b.guards(c) if kind == "cond" and pol and strip(g).get("k") == "Binary" and strip(g)["op"] == "=="]
        ok = bool(tests)
        how = []
        for g in tests:
            e = strip(g)
            for side in (e["l"], e["r"]):
                src = b.canon(side, 6)
                emitted = "canonical_name(" in src or "canonical_path(" in src
                how.append(src[:60])
                ok = ok and emitted
        rep.check(ok, "alias-hop-compares-emitted-names", "the hop is taken when the canonical (emitted) names coincide" if ok else
                  "the hop is decided by comparing %s: the alias codegen decides by canonical path, the two disagree for a typedef of an "
                  "enum from another namespace" % " == ".join(how[:2]), b.loc(c))
    tb = rep.need(prog.impl_fn("codegen::CodeGenerator", "ir::ty::Type", "codegen"), "<Type as CodeGenerator>::codegen")
    skip = [n for n in tb.nodes if n["k"] == "If" and tb.diverges(n["then"]) and "canonical_path(" in tb.canon(n["cond"], 6) and
            strip(n["cond"]).get("k") == "Binary" and strip(n["cond"])["op"] == "=="]
    rep.check(bool(skip), "alias-skip-compares-canonical-path", "Type::codegen skips an alias whose canonical path equals its target's", tb.loc(tb.root))


RULES.rule("R1.12", "\"this typedef is not generated\" is decided from emitted names at both sites", floor=2)(_r1_12)


# =====================================================================================================
# R1.13
# =====================================================================================================
def _norm_some(f):
    """`let Some(_) = x` and `x.is_some()` are the same atom."""
    if f[0] == "atom":
        m = re.match(r"let std::prelude::v1::Some\(_\w*\) = (.+)$", f[1])
        if m:
            return ("atom", "std::option::Option::<T>::is_some(%s)" % m.group(1))
        return f
    return (f[0],) + tuple(_norm_some(x) if isinstance(x, tuple) else x for x in f[1:])


@RULES.rule("R1.13", "a record never gets both `repr(packed)` and `repr(align)`", floor=1)
def r1_13(rep):
    """rustc rejects a type carrying both hints (E0587).  CompInfo::codegen pushes `#[repr(C, packed)]` at one site and
    `#[repr(align(N))]` at another; the two reach conditions must be mutually exclusive.  They are decided by a truth table over
    the atoms of both conditions (`let Some(_) = explicit_align` and `explicit_align.is_some()` are one atom)."""
    import itertools
    import c08
    prog = rep.prog
    b = rep.need(prog.impl_fn("codegen::CodeGenerator", "ir::comp::CompInfo", "codegen"), "<CompInfo as CodeGenerator>::codegen")
    packed = [c for c in b.calls(lambda n: "attributes::repr_list" in (n.get("callee") or "")) if "packed" in b.canon(c, 8)]
    for s in qq.quote_sites(b):
        if s.has("repr", "(", "packed") or s.has("C", ",", "packed"):
            packed.append(s.root)
    aligns = [s for s in qq.quote_sites(b) if s.has("repr", "(", "align")]
    aligns_n = [s.root for s in aligns] + [c for c in b.calls(lambda n: "attributes::repr" in (n.get("callee") or "")) if "align" in b.canon(c, 8)]
    rep.need(packed and aligns_n, "the packed and align attribute sites of CompInfo::codegen")
    rep.note("sites", "%d packed site(s), %d align site(s)" % (len(packed), len(aligns_n)))
    for p in packed:
        fp = _norm_some(c08._reach(b, p))
        for a in aligns_n:
            fa = _norm_some(c08._reach(b, a))
            atoms = sorted(c08._atoms(fp, set()) | c08._atoms(fa, set()))
            if len(atoms) > 16:
                rep.bad("packed-with-align@CompInfo::codegen", "conditions too large to decide (%d atoms)" % len(atoms), b.loc(a))
                continue
            wit = None
            for vals in itertools.product((False, True), repeat=len(atoms)):
                env = dict(zip(atoms, vals))
                if c08._ev(fp, env) and c08._ev(fa, env):
                    wit = env
                    break
            rep.check(wit is None, "packed-with-align@CompInfo::codegen",
                      "the packed and the align attribute exclude each other" if wit is None else
                      "both `repr(C, packed)` and `repr(align(N))` are pushed when " +
                      " and ".join(("" if v else "not ") + k.split("::")[-1][:60] for k, v in wit.items()) +
                      " (rustc: E0587); `struct __attribute__((packed, aligned(8))) { char c; int i; }` is such a record", b.loc(a))


# =====================================================================================================
# R1.14
# =====================================================================================================
@RULES.rule("R1.14", "`repr(align)` is only put on a record that needs it (an aligned type cannot sit in a packed one)", floor=3)
def r1_14(rep):
    """rustc rejects a `repr(packed)` type that contains a `repr(align)` type (E0588), however small the alignment.  CompInfo::codegen
    requests the attribute by assigning `explicit_align = Some(..)`; for structs and unions that happens only when
    `StructLayoutTracker::requires_explicit_align` says the members do not already give the alignment.  A request without that test
    marks types whose natural alignment is already right, and every packed struct holding one stops compiling."""
    prog = rep.prog
    b = rep.need(prog.impl_fn("codegen::CodeGenerator", "ir::comp::CompInfo", "codegen"), "<CompInfo as CodeGenerator>::codegen")
    # the local that feeds the `#[repr(align(#explicit))]` quote site
    asg = [n for n in b.nodes if n["k"] == "Assign" and strip(n["l"]).get("k") == "Local" and "Option<usize>" in (b.ty(n["l"]) or "")
           and "Some" in b.canon(n["r"], 2)]
    aligns = [s for s in qq.quote_sites(b) if s.has("repr", "(", "align")]
    rep.need(aligns and len(asg) >= 3, "assignments to the explicit-alignment local of CompInfo::codegen")
    per = {}
    for n in asg:
        atoms = qq.guard_atoms(b, n)
        need = any("requires_explicit_align" in a and pol for a, pol, _ in atoms)
        where = "opaque" if any(("is_opaque" in a or a == "local:is_opaque") and pol for a, pol, _ in atoms) else \
            "union" if any("is_union" in a and pol for a, pol, _ in atoms) else "struct"
        k = per.get(where, 0)
        per[where] = k + 1
        rep.check(need, "align-attr-only-when-needed:%s%s" % (where, "#%d" % k if k else ""),
                  "requested after `requires_explicit_align`" if need else
                  "`explicit_align` is set without asking whether the members already give the alignment: the type carries "
                  "`#[repr(align(N))]` for its natural alignment, and a packed struct with such a member is rejected (E0588)", b.loc(n))


# =====================================================================================================
# R1.15 / R1.16
# =====================================================================================================
@RULES.rule("R1.15", "\"this enum has a typedef of the same name\" is decided within one module", floor=1)
def r1_15(rep):
    """An enum whose name is also the name of an integer typedef IN THE SAME MODULE is emitted without its `pub type N = ..;` (the
    typedef provides it).  `compute_enum_typedef_combos` collects the typedef names of a module and then looks the module's enums up in
    that set; the set has to start empty for every module.  Kept across modules, `typedef unsigned flags;` at the top level makes
    `namespace net { enum flags {..}; }` lose its type alias while constants and fields still name it (E0425, seeded change)."""
    prog = rep.prog
    b = rep.need(prog.fn("ir::context::BindgenContext::compute_enum_typedef_combos"), "BindgenContext::compute_enum_typedef_combos")
    loops = [n for n in b.walk() if n["k"] == "For"]
    outer = [l for l in loops if not any(a["k"] == "For" for a in b.ancestors(l))]
    rep.need(len(outer) == 1, "the loop over all items (modules)")
    outer = outer[0]
    n = 0
    for c in b.calls(lambda x: x["k"] == "MCall" and x["name"] == "contains" and "HashSet" in (x.get("callee") or "")):
        r = strip(c["recv"])
        if r.get("k") != "Local" or not any(a is outer for a in b.ancestors(c)):
            continue
        ins = [i for i in b.calls(lambda x: x["k"] == "MCall" and x["name"] == "insert") if strip(i["recv"]).get("id") == r["id"]]
        if not ins:
            continue
        n += 1
        d = b.local_def.get(r["id"])
        let = d[0][1] if d and d[0][0] == "let" else None
        inside = let is not None and any(a is outer for a in b.ancestors(let))
        rep.check(inside, "per-module-set:%s" % ("names" if n == 1 else str(n)), "the set of typedef names is created inside the loop over the modules" if inside else
                  "the set that is filled with a module's typedef names and queried for its enums is created once, outside the loop over the "
                  "modules: it still holds the names of every module visited before", b.loc(let or c))
    rep.need(n >= 1, "a set that is filled and queried inside the module loop")


@RULES.rule("R1.16", "a derive list never names a trait twice", floor=1)
def r1_16(rep):
    """`#[derive(PartialEq, PartialEq)]` is two conflicting impls (E0119).  Custom derives come from several sources (each
    `--with-derive-custom*` flag is a callback of its own), so `append_custom_derives` has to test every candidate against the list
    AS IT GROWS: the membership test and the push belong to the same loop iteration.  Filtering all candidates against the original
    list first and extending afterwards lets two sources add the same trait (seeded change)."""
    prog = rep.prog
    b = rep.need(prog.fn("codegen::append_custom_derives"), "codegen::append_custom_derives")
    tgt = b.params[0].get("id")
    adds = [c for c in b.calls(lambda x: x["k"] == "MCall" and x["name"] in ("push", "extend", "extend_from_slice", "append", "insert"))
            if strip(c["recv"]).get("k") == "Local" and strip(c["recv"])["id"] == tgt]
    rep.need(adds, "additions to the derive list")
    for c in adds:
        ok = False
        why = "`%s`" % c["name"]
        if c["name"] == "push":
            loop = next((a for a in b.ancestors(c) if a["k"] in ("For", "While", "Loop")), None)
            tests = [(pol, g) for pol, kind, g in b.guards(c) if kind == "cond" and "contains(" in b.canon(g, 6) and
                     any(x["k"] == "Local" and x["id"] == tgt for x in b.walk(g))]
            neg = any(((not pol) and b.canon(g, 6).lstrip("(").startswith(("std::", "bitflags::"))) or (pol and "(!" in b.canon(g, 6)) for pol, g in tests)
            in_same_iter = loop is not None and all(any(a is loop for a in b.ancestors(g)) for _, g in tests)
            ok = bool(tests) and neg and in_same_iter
            why = "pushed under `!derives.contains(..)` evaluated in the same iteration" if ok else "pushed without a membership test on the growing list"
        rep.check(ok, "no-duplicate-derive@append_custom_derives", why if ok else
                  "%s: candidates are not compared with what was added earlier in the same call, so two sources naming the same trait "
                  "produce `#[derive(X, X)]`" % why, b.loc(c))


# =====================================================================================================
# R1.17
# =====================================================================================================
@RULES.rule("R1.17", "a bool enumerator is written `true` / `false` only where the enum's Rust type is still `bool`", floor=2)
def r1_17(rep):
    """`Enum::codegen` keeps the C underlying type of an enum only under `!translate_enum_integer_types && !variation.is_rust()`;
    otherwise `enum class E : bool` becomes `u8`.  `EnumBuilder::with_variant` must print a boolean enumerator as `0` / `1` in every
    one of those cases: `pub const E_A: E = false;` next to `pub type E = u8;` does not type-check (before the fix the option was not
    looked at).  The conditions of the "keep the type" arm are read from `Enum::codegen`; the bool-literal arm of `with_variant` must
    exclude each of them."""
    prog = rep.prog
    eb = rep.need(prog.impl_fn("codegen::CodeGenerator", "ir::enum_ty::Enum", "codegen"), "<Enum as CodeGenerator>::codegen")
    # the arm that keeps the repr: a match arm with a guard, scrutinee derived from Enum::repr
    keep = None
    for m in eb.walk():
        if m["k"] == "Match" and "Enum::repr" in eb.canon(m["scrut"], 6):
            for a in m["arms"]:
                if "guard" in a:
                    keep = a["guard"]
    rep.need(keep, "the guarded arm of `match self.repr()` that keeps the C type")
    need = []
    src = eb.canon(keep, 10)
    if "translate_enum_integer_types" in src:
        need.append("translate_enum_integer_types")
    if "is_rust" in src:
        need.append("is_rust")
    rep.check(len(need) == 2, "keep-type-conditions", "the C type is kept under !translate_enum_integer_types && !is_rust (read: %s)" % need, eb.loc(keep))
    wv = rep.need(next((x for p, x in prog.bodies.items() if p.endswith("EnumBuilder::with_variant")), None), "EnumBuilder::with_variant")
    lit_sites = []
    for m in wv.walk():
        if m["k"] != "Match":
            continue
        for i, a in enumerate(m["arms"]):
            if any(v.endswith("EnumVariantValue::Boolean") for v in pat_variants_(a["pat"])):
                body = strip(a["body"])
                is_int = "uint_expr" in wv.canon(body, 6) or "int_expr" in wv.canon(body, 6)
                if not is_int:
                    lit_sites.append((m, i, a))
    rep.need(lit_sites, "the arm of with_variant that prints a bool enumerator as a literal")
    for m, i, a in lit_sites:
        # what excludes this arm: guards of the earlier Boolean arms
        excl = " ".join(wv.canon(b_["guard"], 10) for j, b_ in enumerate(m["arms"]) if j < i and "guard" in b_ and
                        any(v.endswith("EnumVariantValue::Boolean") for v in pat_variants_(b_["pat"])))
        for x in wv.walk(m):
            pass
        flat = excl
        for n_ in wv.nodes:
            if n_["k"] == "Local" and n_.get("name") and ("local:" + n_["name"]) in excl and wv.local_init(n_["id"]) is not None:
                flat += " " + wv.canon(wv.local_init(n_["id"]), 6)
        for w in need:
            ok = w in flat
            rep.check(ok, "bool-literal-excluded-when:%s" % w, "an earlier arm takes the boolean when `%s` holds" % w if ok else
                      "a boolean enumerator is still printed as `true` / `false` when `%s` holds, although the enum's type is an integer then "
                      "(E0308)" % w, wv.loc(a["body"]))


# =====================================================================================================
# R1.18
# =====================================================================================================
@RULES.rule("R1.18", "bit-field accessors are renamed against EVERY member function", floor=1)
def r1_18(rep):
    """Getters `x()` and setters `set_x()` of a bit-field live in the same `impl` block as the wrappers of the class's member
    functions - static ones included.  `assign_field_names` renames an accessor (`.._bindgen_bitfield`) when `has_method` finds a
    member function of that name; `has_method` must look at all of them.  Leaving static functions out ("constructors and destructors
    are wrapped as new / destruct anyway") gives two `set_mode` in one impl (E0592, seeded change)."""
    prog = rep.prog
    b = rep.need(next((x for p, x in prog.bodies.items() if p.endswith("assign_field_names::has_method")), None), "assign_field_names::has_method")
    anys = [c for c in b.calls(lambda x: x["k"] == "MCall" and x["name"] in ("any", "find", "position", "all"))]
    rep.need(anys, "the search over the methods in has_method")
    for c in anys:
        chain = []
        x = strip(c["recv"])
        while x.get("k") == "MCall":
            chain.append(x["name"])
            x = strip(x["recv"])
        lossy = [m for m in chain if m in ("filter", "filter_map", "skip", "take", "skip_while", "take_while", "step_by")]
        kinds = [y for y in b.walk(c) if y["k"] == "MCall" and (y.get("callee") or y.get("resolved") or "").endswith("comp::Method::kind")]
        ok = not lossy and not kinds
        rep.check(ok, "every-method-considered", "iterates over all methods, compares names only" if ok else
                  "the search skips some methods (%s): an accessor that collides with one of the skipped functions keeps its name" %
                  (", ".join(lossy) or "tests `method.kind()`"), b.loc(c))


# =====================================================================================================
# R1.19
# =====================================================================================================
@RULES.rule("R1.19", "helper source that is pasted into the bindings names `core` / `std` by absolute path", floor=1)
def r1_19(rep):
    """`codegen/bitfield_unit.rs` is included as text in front of the bindings.  A path that starts with `core::` (no leading `::`) is
    resolved relative to the module it lands in, where the header's own items live: `struct core { int x; };` next to any bit-field
    makes `core::ptr::addr_of!` / `core::mem::size_of` resolve to the user's struct (E0433).  The quote! sites are held to the same
    rule by R1.5; this is the one helper that is pasted as a file."""
    import facts as _facts
    path = os.path.join(_facts.REPO, "bindgen/codegen/bitfield_unit.rs")
    rep.need(os.path.exists(path), "bindgen/codegen/bitfield_unit.rs")
    text = open(path).read()
    # strip comments and string literals
    code = re.sub(r"//[^\n]*", "", text)
    code = re.sub(r'"(?:[^"\\]|\\.)*"', '""', code)
    n_abs = len(re.findall(r"::(core|std)::", code))
    rel = re.findall(r"(?<![:\w])(core|std)::[\w:]+", code)
    rel_full = re.findall(r"(?<![:\w])((?:core|std)::[\w:]+!?)", code)
    rep.note("paths", {"absolute": n_abs, "relative": sorted(set(rel_full))[:8]})
    rep.check(not rel, "helper-paths-absolute:bitfield_unit.rs", "every `core` / `std` path starts with `::`" if not rel else
              "%d paths such as `%s` have no leading `::`: a header item named `%s` in the same module shadows the crate" %
              (len(rel_full), rel_full[0], rel[0]), "bindgen/codegen/bitfield_unit.rs")


# =====================================================================================================
# R1.20 / R1.21 — bit-field accessors over every spelling of the declared type and of the unit field
# =====================================================================================================
def _quoted_fns(tokens):
    """(name token, is_unsafe_fn, params [(ident, type tokens)], return type tokens, body token range) of each `fn` in a token list."""
    out = []
    i = 0
    n = len(tokens)
    while i < n:
        if tokens[i] != "fn" or i + 2 >= n or tokens[i + 2] != "(":
            i += 1
            continue
        name = tokens[i + 1]
        uns = i > 0 and tokens[i - 1] == "unsafe"
        # parameter list
        j = i + 3
        depth = 1
        start = j
        while j < n and depth:
            depth += tokens[j] in ("(", "[", "{", "<") and 1 or 0
            depth -= tokens[j] in (")", "]", "}", ">") and tokens[j - 1] != "-" and 1 or 0
            j += 1
        ptoks = tokens[start:j - 1]
        params = []
        cur = []
        d = 0
        for t in ptoks + [","]:
            if t == "," and d == 0:
                if ":" in cur:
                    k = cur.index(":")
                    params.append((cur[k - 1], cur[k + 1:]))
                cur = []
                continue
            d += t in ("(", "[", "<") and 1 or 0
            d -= t in (")", "]", ">") and 1 or 0
            cur.append(t)
        ret = []
        if j < n and tokens[j] == "->":
            j += 1
            while j < n and tokens[j] != "{":
                ret.append(tokens[j])
                j += 1
        if j >= n or tokens[j] != "{":
            i += 1
            continue
        b0 = j
        depth = 0
        while j < n:
            depth += tokens[j] == "{"
            depth -= tokens[j] == "}"
            j += 1
            if depth == 0:
                break
        out.append((name, uns, params, ret, (b0, j)))
        i = j
    return out


def _unsafe_ctx(tokens, lo, hi):
    """for each index in [lo, hi): is it inside an `unsafe { .. }` block"""
    res = {}
    stack = []
    for i in range(lo, hi):
        t = tokens[i]
        if t == "{":
            stack.append(i > 0 and tokens[i - 1] == "unsafe")
        elif t == "}":
            if stack:
                stack.pop()
        res[i] = any(stack)
    return res


def _accessor_role(uns, params, ret, decl):
    """getter / setter / raw_getter / raw_setter, from the shape of the quoted fn (not from what the interpolated name is called)"""
    returns = bool(ret) and (decl is None or ret[0] in decl)
    return ("raw_" if uns else "") + ("getter" if returns else "setter")


@RULES.rule("R1.20", "bit-field accessors convert between the declared type and the unit's integer by a conversion every declared type has", floor=8)
def r1_20(rep):
    """`#bitfield_ty` is whatever `to_rust_ty_or_opaque` spells for the bit-field's type: a primitive, a `#[repr]` Rust enum — or, for an
    enum under `--default-enum-style newtype` / `bitfield`, a tuple struct.  `as` only exists between primitives (and from field-less
    enums): `let val: u32 = val as _;` with `val: E` where `pub struct E(pub u32)` is E0605.  The getters of the plain branch use
    `transmute`, which every same-sized type has.  Per accessor in the quotes of `Bitfield::codegen`: no `as` applied to a parameter
    whose type is the interpolated declared type, no `as _` producing the declared return type."""
    prog = rep.prog
    b = rep.need(prog.impl_fn("codegen::FieldCodegen", "ir::comp::Bitfield", "codegen"), "<Bitfield as FieldCodegen>::codegen")
    # which interpolated local is the declared type: the one initialised from to_rust_ty_or_opaque
    decl = set()
    for q in qq.quote_sites(b):
        for nm, node in q.interps().items():
            init = b.local_init(node["id"])
            if init is not None and "to_rust_ty_or_opaque" in b.canon(init, 6):
                decl.add("#" + nm)
    rep.need(decl, "the interpolated declared type of the bit-field")
    n = 0
    for q in qq.quote_sites(b):
        atoms = qq.guard_atoms(b, q.root)
        wrapper = any("is_union" in a and pol for a, pol, _ in atoms)
        branch = "union-wrapper" if wrapper else "plain"
        for name, uns, params, ret, (lo, hi) in _quoted_fns(q.tokens):
            toks = q.tokens
            for ident, ty in params:
                if len(ty) == 1 and ty[0] in decl:
                    n += 1
                    casts = [i for i in range(lo, hi - 1) if toks[i] == ident and toks[i + 1] == "as" and toks[i - 1] not in (".", "let")]
                    rep.check(not casts, "from-declared-type:%s:%s" % (branch, _accessor_role(uns, params, ret, decl)),
                              "the declared type is converted without `as`" if not casts else
                              "`%s as ..` with `%s: %s`: E0605 whenever the declared type is not a primitive (an enum under "
                              "--default-enum-style newtype: `non-primitive cast: E as u32`)" % (ident, ident, ty[0]), q.loc())
            if len(ret) == 1 and ret[0] in decl:
                n += 1
                # the value of the body: tokens just before the closing braces
                k = hi - 1
                while k > lo and toks[k] == "}":
                    k -= 1
                tail_cast = toks[k] == "_" and toks[k - 1] == "as"
                rep.check(not tail_cast, "to-declared-type:%s:%s" % (branch, _accessor_role(uns, params, ret, decl)),
                          "the declared type is produced without `as`" if not tail_cast else
                          "the body ends in `as _` with return type `%s`: E0605 whenever the declared type is not a primitive" % ret[0], q.loc())
    rep.need(n >= 8, "accessors taking or returning the declared type")
    # the constructor: `BitfieldUnit::codegen` declares one parameter `#param_name: #bitfield_ty` per bit-field and
    # `Bitfield::extend_ctor_impl` converts it
    e = rep.need(prog.fn("ir::comp::Bitfield::extend_ctor_impl") or
                 next((bb for pp, bb in prog.bodies.items() if pp.endswith("::extend_ctor_impl")), None), "Bitfield::extend_ctor_impl")
    for q in qq.quote_sites(e):
        t = q.tokens
        params = {p_["name"] for p_ in e.params if p_.get("name")}
        casts = [i for i in range(1, len(t) - 1) if t[i].startswith("#") and t[i][1:] in params and t[i + 1] == "as" and t[i - 1] == "="]
        rep.check(not casts, "from-declared-type:ctor:extend_ctor_impl", "the constructor converts its parameters without `as`" if not casts else
                  "`%s as _` on a constructor parameter of the declared type: E0605 whenever that type is not a primitive" % t[casts[0]], q.loc())


def _union_field_unsafe_methods(prog):
    """names of the `unsafe fn`s of the emitted `__BindgenUnionField` helper (read from its quote)"""
    out = set()
    for p, b in prog.bodies.items():
        if not p.startswith("codegen::"):
            continue
        for q in qq.quote_sites(b):
            if not q.has("impl", "<", "T", ">", "__BindgenUnionField", "<", "T", ">"):
                continue
            t = q.tokens
            for i in range(len(t) - 2):
                if t[i] == "unsafe" and t[i + 1] == "fn":
                    out.add(t[i + 2])
    return out


@RULES.rule("R1.21", "the unit field of a bit-field run in a union is reached the way its wrapper allows", floor=6)
def r1_21(rep):
    """Inside a union the unit field is wrapped like every other member: `__BindgenUnionField<Unit>` when Rust unions are not used,
    whose `as_ref` / `as_mut` are `unsafe fn` (E0133 when called from a safe accessor outside `unsafe { }`), and — before the fix —
    `ManuallyDrop<Unit>` in a non-Copy Rust union, through which the raw accessors' `addr_of!((*this).unit)` has the wrong pointer type
    (E0308).  (1) in the quotes of `Bitfield::codegen`, every call of an unsafe method of the wrapper sits in an `unsafe fn` or an
    `unsafe { }` block; (2) `BitfieldUnit::codegen` asks for the union wrapper only when the record is not a Rust union."""
    prog = rep.prog
    b = rep.need(prog.impl_fn("codegen::FieldCodegen", "ir::comp::Bitfield", "codegen"), "<Bitfield as FieldCodegen>::codegen")
    unsafe_methods = rep.need(_union_field_unsafe_methods(prog), "unsafe fns of the __BindgenUnionField helper")
    rep.note("unsafe methods of __BindgenUnionField", sorted(unsafe_methods))
    n = 0
    for q in qq.quote_sites(b):
        atoms = qq.guard_atoms(b, q.root)
        if not any("is_union" in a and pol for a, pol, _ in atoms):
            continue
        toks = q.tokens
        for name, uns, params, ret, (lo, hi) in _quoted_fns(toks):
            ctx = _unsafe_ctx(toks, lo, hi)
            calls = [i for i in range(lo, hi - 1) if toks[i] == "." and toks[i + 1] in unsafe_methods and toks[i + 2] == "(" and
                     (toks[i - 1] == ")" or (toks[i - 1].startswith("#") and len(toks[i - 1]) > 1 and toks[i - 2] == "."))]
            if not calls:
                continue
            n += 1
            bad = [i for i in calls if not uns and not ctx.get(i)]
            rep.check(not bad, "wrapper-access-in-unsafe:%s" % _accessor_role(uns, params, ret, None),
                      "`.%s()` on the wrapped unit sits inside `unsafe`" % toks[calls[0] + 1] if not bad else
                      "`.%s()` of `__BindgenUnionField` is an `unsafe fn` and is called from the safe `fn %s` outside an `unsafe` block: "
                      "E0133 for every union with bit-fields under --disable-untagged-union" % (toks[bad[0] + 1], name), q.loc())
    rep.need(n >= 4, "accessors of the union-wrapper branch that reach through the wrapper")
    u = rep.need(prog.impl_fn("codegen::FieldCodegen", "ir::comp::BitfieldUnit", "codegen"), "<BitfieldUnit as FieldCodegen>::codegen")
    wraps = [c for c in u.calls(lambda x: x["k"] == "Call" and (x.get("callee") or "").endswith("wrap_union_field_if_needed"))]
    for c in wraps:
        at = qq.guard_atoms(u, c)
        ok = any("is_rust_union" in a and not pol for a, pol, _ in at)
        rep.check(ok, "unit-bare-in-rust-union@BitfieldUnit::codegen", "the unit is only wrapped when the record is not a Rust union" if ok else
                  "the unit of a Rust union goes through `wrap_union_field_if_needed`, which wraps it in `ManuallyDrop` when the union is not "
                  "Copy: `raw_get_const(addr_of!((*this)._bitfield_1))` then gets a `*const ManuallyDrop<..>` (E0308)", u.loc(c))
    rep.check(True, "unit-wrap-sites", "%d wrap sites in BitfieldUnit::codegen" % len(wraps))
