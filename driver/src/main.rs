// bgv-driver: rustc_private fact extractor for the rust-bindgen static checks.
//
// Invoked through RUSTC_WORKSPACE_WRAPPER: argv = [self, <rustc>, <rustc args...>].
// For the crates named in $BGV_CRATES (default "bindgen") it walks the HIR of
// every body together with its TypeckResults and writes ONE json file
// $BGV_OUT/<crate>-<pid>.json holding generic facts (no repository knowledge):
//   files, types (interned), adts, impls, statics, fns (with the resolved body tree).
// All repository-specific knowledge lives in /verif/rules.
#![feature(rustc_private)]
#![allow(clippy::all)]

extern crate rustc_ast;
extern crate rustc_driver;
extern crate rustc_hir;
extern crate rustc_interface;
extern crate rustc_middle;
extern crate rustc_span;

mod json;

use json::J;
use rustc_driver::Compilation;
use rustc_hir as hir;
use rustc_hir::def::{DefKind, Res};
use rustc_hir::def_id::{DefId, LocalDefId, LOCAL_CRATE};
use rustc_hir::HirId;
use rustc_middle::ty::print::with_no_trimmed_paths;
use rustc_middle::ty::{self, Ty, TyCtxt, TypeVisitableExt};
use rustc_span::hygiene::{ExpnKind, MacroKind};
use rustc_span::Span;
use std::collections::HashMap;

struct Cb;

impl rustc_driver::Callbacks for Cb {
    fn after_analysis<'tcx>(
        &mut self,
        _c: &rustc_interface::interface::Compiler,
        tcx: TyCtxt<'tcx>,
    ) -> Compilation {
        let name = tcx.crate_name(LOCAL_CRATE).to_string();
        let want =
            std::env::var("BGV_CRATES").unwrap_or_else(|_| "bindgen".into());
        if want.split(',').any(|w| w == name) {
            if let Ok(out) = std::env::var("BGV_OUT") {
                let mut d = Dumper::new(tcx);
                let text = d.dump(&name);
                let path =
                    format!("{}/{}-{}.json", out, name, std::process::id());
                std::fs::write(&path, text).expect("bgv: cannot write facts");
            }
        }
        Compilation::Continue
    }
}

fn main() {
    let args: Vec<String> = std::env::args().skip(1).collect();
    rustc_driver::run_compiler(&args, &mut Cb);
}

struct Dumper<'tcx> {
    tcx: TyCtxt<'tcx>,
    types: Vec<String>,
    type_ix: HashMap<String, usize>,
    files: Vec<String>,
    file_ix: HashMap<String, usize>,
}

fn s<T: Into<String>>(x: T) -> J {
    J::Str(x.into())
}
fn n(x: usize) -> J {
    J::Num(x as i128)
}

impl<'tcx> Dumper<'tcx> {
    fn new(tcx: TyCtxt<'tcx>) -> Self {
        Dumper {
            tcx,
            types: vec![],
            type_ix: HashMap::new(),
            files: vec![],
            file_ix: HashMap::new(),
        }
    }

    fn path(&self, d: DefId) -> String {
        with_no_trimmed_paths!(self.tcx.def_path_str(d))
    }

    fn ty_str(&self, t: Ty<'tcx>) -> String {
        with_no_trimmed_paths!(t.to_string())
    }

    fn ty(&mut self, t: Ty<'tcx>) -> J {
        let st = self.ty_str(t);
        self.ty_of_str(st)
    }

    fn ty_of_str(&mut self, st: String) -> J {
        if let Some(&i) = self.type_ix.get(&st) {
            return n(i);
        }
        let i = self.types.len();
        self.types.push(st.clone());
        self.type_ix.insert(st, i);
        n(i)
    }

    fn file(&mut self, name: String) -> usize {
        if let Some(&i) = self.file_ix.get(&name) {
            return i;
        }
        let i = self.files.len();
        self.files.push(name.clone());
        self.file_ix.insert(name, i);
        i
    }

    /// [file, line_lo, col_lo, line_hi, col_hi] of the span itself (no call-site mapping).
    fn raw_span(&mut self, sp: Span) -> J {
        let sm = self.tcx.sess.source_map();
        let lo = sm.lookup_char_pos(sp.lo());
        let hi = sm.lookup_char_pos(sp.hi());
        let fname = format!("{}", lo.file.name.prefer_local_unconditionally());
        let f = self.file(fname);
        J::Arr(vec![
            n(f),
            n(lo.line),
            n(lo.col.0),
            n(hi.line),
            n(hi.col.0),
        ])
    }

    /// span mapped to the outermost macro call site
    fn span(&mut self, sp: Span) -> J {
        self.raw_span(sp.source_callsite())
    }

    fn dump(&mut self, krate: &str) -> String {
        let tcx = self.tcx;
        let mut adts = vec![];
        let mut impls = vec![];
        let mut statics = vec![];
        let mut traits = vec![];
        let items = tcx.hir_crate_items(());
        for id in items.definitions() {
            let did = id.to_def_id();
            match tcx.def_kind(did) {
                DefKind::Struct | DefKind::Enum | DefKind::Union => {
                    adts.push(self.adt(id));
                }
                DefKind::Impl { .. } => impls.push(self.impl_(id)),
                DefKind::Static { mutability, nested, .. } => {
                    if nested {
                        continue;
                    }
                    let t = tcx.type_of(did).instantiate_identity().skip_norm_wip();
                    let env = ty::TypingEnv::post_analysis(tcx, did);
                    let freeze = t.is_freeze(tcx, env);
                    let tj = self.ty(t);
                    let sp = self.span(tcx.def_span(did));
                    let tl = tcx.is_thread_local_static(did);
                    statics.push(J::Obj(vec![
                        ("path", s(self.path(did))),
                        ("ty", tj),
                        ("mut", J::Bool(mutability.is_mut())),
                        ("freeze", J::Bool(freeze)),
                        ("thread_local", J::Bool(tl)),
                        ("s", sp),
                    ]));
                }
                DefKind::Trait => {
                    let mut ms = vec![];
                    for it in tcx.associated_items(did).in_definition_order() {
                        ms.push(J::Obj(vec![
                            ("name", s(it.name().to_string())),
                            ("path", s(self.path(it.def_id))),
                            ("has_default", J::Bool(it.defaultness(tcx).has_value())),
                        ]));
                    }
                    traits.push(J::Obj(vec![
                        ("path", s(self.path(did))),
                        ("items", J::Arr(ms)),
                    ]));
                }
                _ => {}
            }
        }
        let mut fns = vec![];
        for owner in tcx.hir_body_owners() {
            // closures are dumped inline in their parent
            if matches!(tcx.def_kind(owner), DefKind::Closure) {
                continue;
            }
            // anonymous / inline consts inside another body are dumped separately, keep them
            fns.push(self.body_owner(owner));
        }
        let top = J::Obj(vec![
            ("crate", s(krate)),
            ("crate_types", s(format!("{:?}", tcx.crate_types()))),
            ("files", J::Arr(self.files.iter().map(|f| s(f.clone())).collect())),
            ("types", J::Arr(self.types.iter().map(|f| s(f.clone())).collect())),
            ("adts", J::Arr(adts)),
            ("impls", J::Arr(impls)),
            ("traits", J::Arr(traits)),
            ("statics", J::Arr(statics)),
            ("fns", J::Arr(fns)),
        ]);
        let mut out = String::new();
        top.write(&mut out);
        out
    }

    fn adt(&mut self, id: LocalDefId) -> J {
        let tcx = self.tcx;
        let did = id.to_def_id();
        let adt = tcx.adt_def(did);
        let mut vars = vec![];
        for v in adt.variants() {
            let mut fs = vec![];
            for f in &v.fields {
                let t = tcx.type_of(f.did).instantiate_identity().skip_norm_wip();
                let tj = self.ty(t);
                fs.push(J::Obj(vec![("name", s(f.name.to_string())), ("ty", tj)]));
            }
            vars.push(J::Obj(vec![
                ("name", s(v.name.to_string())),
                ("path", s(self.path(v.def_id))),
                ("fields", J::Arr(fs)),
            ]));
        }
        let kind = if adt.is_enum() {
            "enum"
        } else if adt.is_union() {
            "union"
        } else {
            "struct"
        };
        let sp = self.span(tcx.def_span(did));
        J::Obj(vec![
            ("path", s(self.path(did))),
            ("kind", s(kind)),
            ("s", sp),
            ("variants", J::Arr(vars)),
        ])
    }

    fn impl_(&mut self, id: LocalDefId) -> J {
        let tcx = self.tcx;
        let did = id.to_def_id();
        let self_ty = tcx.type_of(did).instantiate_identity().skip_norm_wip();
        let tr = tcx
            .impl_opt_trait_ref(did)
            .map(|t| t.instantiate_identity().skip_norm_wip());
        let mut its = vec![];
        for it in tcx.associated_items(did).in_definition_order() {
            its.push(J::Obj(vec![
                ("name", s(it.name().to_string())),
                ("path", s(self.path(it.def_id))),
                (
                    "trait_item",
                    match it.trait_item_def_id() {
                        Some(d) => s(self.path(d)),
                        None => J::Null,
                    },
                ),
            ]));
        }
        let sp = self.span(tcx.def_span(did));
        J::Obj(vec![
            ("self_ty", s(self.ty_str(self_ty))),
            (
                "trait",
                match tr {
                    Some(t) => s(self.path(t.def_id)),
                    None => J::Null,
                },
            ),
            (
                "trait_ref",
                match tr {
                    Some(t) => s(with_no_trimmed_paths!(t.to_string())),
                    None => J::Null,
                },
            ),
            ("items", J::Arr(its)),
            ("s", sp),
        ])
    }

    fn body_owner(&mut self, owner: LocalDefId) -> J {
        let tcx = self.tcx;
        let did = owner.to_def_id();
        let kind = tcx.def_kind(did);
        let body = tcx.hir_body_owned_by(owner);
        let typeck = tcx.typeck(owner);
        let mut fields: Vec<(&'static str, J)> = vec![
            ("path", s(self.path(did))),
            ("kind", s(format!("{:?}", kind))),
        ];
        let sp = self.span(tcx.def_span(did));
        fields.push(("s", sp));
        let full = self.raw_span(tcx.hir_span(tcx.local_def_id_to_hir_id(owner)).source_callsite());
        fields.push(("fs", full));
        if matches!(kind, DefKind::Fn | DefKind::AssocFn) {
            let sig = tcx.fn_sig(did).instantiate_identity().skip_norm_wip().skip_binder();
            let ins: Vec<J> = sig.inputs().iter().map(|t| self.ty(*t)).collect();
            fields.push(("inputs", J::Arr(ins)));
            let o = self.ty(sig.output());
            fields.push(("output", o));
            fields.push(("vis", s(format!("{:?}", tcx.visibility(did)))));
        } else {
            let t = tcx.type_of(did).instantiate_identity().skip_norm_wip();
            let tj = self.ty(t);
            fields.push(("ty", tj));
        }
        if let Some(imp) = tcx.impl_of_assoc(did) {
            let st = tcx.type_of(imp).instantiate_identity().skip_norm_wip();
            fields.push(("impl_self", s(self.ty_str(st))));
            if let Some(tr) = tcx.impl_opt_trait_ref(imp) {
                let tr = tr.instantiate_identity().skip_norm_wip();
                fields.push(("impl_trait", s(self.path(tr.def_id))));
                fields.push(("impl_trait_ref", s(with_no_trimmed_paths!(tr.to_string()))));
            }
            let ai = tcx.associated_item(did);
            if let Some(ti) = ai.trait_item_def_id() {
                fields.push(("trait_item", s(self.path(ti))));
            }
        } else if let Some(tr) = tcx.trait_of_assoc(did) {
            fields.push(("in_trait", s(self.path(tr))));
        }
        let mut cx = BodyCx {
            d: self,
            typeck,
            owner,
            locals: HashMap::new(),
            macros: vec![],
            macro_ix: HashMap::new(),
        };
        let params: Vec<J> = body.params.iter().map(|p| cx.pat(p.pat)).collect();
        let tree = cx.expr(body.value);
        let macros = std::mem::take(&mut cx.macros);
        fields.push(("params", J::Arr(params)));
        fields.push(("macros", J::Arr(macros)));
        fields.push(("body", tree));
        J::Obj(fields)
    }
}

struct BodyCx<'a, 'tcx> {
    d: &'a mut Dumper<'tcx>,
    typeck: &'tcx ty::TypeckResults<'tcx>,
    owner: LocalDefId,
    locals: HashMap<HirId, usize>,
    macros: Vec<J>,
    macro_ix: HashMap<(String, Span), usize>,
}

impl<'a, 'tcx> BodyCx<'a, 'tcx> {
    fn local(&mut self, id: HirId) -> usize {
        let l = self.locals.len();
        *self.locals.entry(id).or_insert(l)
    }

    /// macro expansion chain of a span: Some(index into the per-body macro table)
    fn macro_of(&mut self, sp: Span) -> Option<usize> {
        if !sp.from_expansion() {
            return None;
        }
        let mut names: Vec<String> = vec![];
        let mut cur = sp;
        let mut outer_site = sp;
        while cur.from_expansion() {
            let d = cur.ctxt().outer_expn_data();
            match d.kind {
                ExpnKind::Macro(mk, name) => {
                    let tag = match mk {
                        MacroKind::Bang => "",
                        MacroKind::Attr => "#",
                        MacroKind::Derive => "derive:",
                    };
                    names.push(format!("{}{}", tag, name));
                    outer_site = d.call_site;
                }
                ExpnKind::Desugaring(_) | ExpnKind::AstPass(_) | ExpnKind::Root => {}
            }
            cur = d.call_site;
        }
        if names.is_empty() {
            return None;
        }
        let chain = names.join("<");
        let key = (chain.clone(), outer_site);
        if let Some(&i) = self.macro_ix.get(&key) {
            return Some(i);
        }
        let site = self.d.raw_span(outer_site);
        let i = self.macros.len();
        self.macros.push(J::Obj(vec![("chain", s(chain)), ("site", site)]));
        self.macro_ix.insert(key, i);
        Some(i)
    }

    fn res(&mut self, res: Res, o: &mut Vec<(&'static str, J)>) {
        match res {
            Res::Local(id) => {
                let l = self.local(id);
                o.push(("k", s("Local")));
                o.push(("id", n(l)));
                o.push(("name", s(self.d.tcx.hir_name(id).to_string())));
            }
            Res::Def(dk, did) => {
                o.push(("k", s("Path")));
                o.push(("def", s(self.d.path(did))));
                o.push(("dk", s(format!("{:?}", dk))));
                // for constructors and variants also give the parent ADT
                if let DefKind::Ctor(..) = dk {
                    let p = self.d.tcx.parent(did);
                    o.push(("ctor_of", s(self.d.path(p))));
                }
            }
            Res::SelfCtor(did) | Res::SelfTyAlias { alias_to: did, .. } => {
                o.push(("k", s("Path")));
                o.push(("def", s(format!("Self@{}", self.d.path(did)))));
                o.push(("dk", s("SelfCtor")));
            }
            other => {
                o.push(("k", s("Path")));
                o.push(("def", s(format!("{:?}", other))));
                o.push(("dk", s("Other")));
            }
        }
    }

    fn qpath(&mut self, q: &hir::QPath<'tcx>, id: HirId, o: &mut Vec<(&'static str, J)>) {
        let res = self.typeck.qpath_res(q, id);
        self.res(res, o);
    }

    fn lit(&mut self, l: &hir::Lit, o: &mut Vec<(&'static str, J)>) {
        use rustc_ast::LitKind::*;
        match l.node {
            Str(sym, _) => {
                o.push(("lk", s("str")));
                o.push(("v", s(sym.to_string())));
            }
            ByteStr(ref b, _) | CStr(ref b, _) => {
                o.push(("lk", s("bytes")));
                o.push(("v", s(String::from_utf8_lossy(b.as_byte_str()).to_string())));
            }
            Byte(b) => {
                o.push(("lk", s("int")));
                o.push(("v", J::Num(b as i128)));
            }
            Char(c) => {
                o.push(("lk", s("char")));
                o.push(("v", s(c.to_string())));
            }
            Int(v, _) => {
                o.push(("lk", s("int")));
                o.push(("v", J::Big(v.get())));
            }
            Float(sym, _) => {
                o.push(("lk", s("float")));
                o.push(("v", s(sym.to_string())));
            }
            Bool(b) => {
                o.push(("lk", s("bool")));
                o.push(("v", J::Bool(b)));
            }
            Err(_) => {
                o.push(("lk", s("err")));
            }
        }
    }

    fn pat(&mut self, p: &hir::Pat<'tcx>) -> J {
        use hir::PatKind::*;
        let mut o: Vec<(&'static str, J)> = vec![];
        match p.kind {
            Missing => o.push(("k", s("Missing"))),
            Wild => o.push(("k", s("Wild"))),
            Never => o.push(("k", s("Never"))),
            Binding(mode, id, ident, sub) => {
                let l = self.local(id);
                o.push(("k", s("Bind")));
                o.push(("id", n(l)));
                o.push(("name", s(ident.name.to_string())));
                o.push(("mode", s(format!("{:?}", mode))));
                let t = self.typeck.node_type(p.hir_id);
                let tj = self.d.ty(t);
                o.push(("t", tj));
                if let Some(sp) = sub {
                    let sj = self.pat(sp);
                    o.push(("sub", sj));
                }
            }
            Struct(ref q, fields, rest) => {
                let mut r = vec![];
                self.qpath(q, p.hir_id, &mut r);
                o.push(("k", s("PStruct")));
                o.push(("res", J::Obj(r)));
                let fs: Vec<J> = fields
                    .iter()
                    .map(|f| {
                        let pj = self.pat(f.pat);
                        J::Obj(vec![("f", s(f.ident.name.to_string())), ("p", pj)])
                    })
                    .collect();
                o.push(("fs", J::Arr(fs)));
                o.push(("rest", J::Bool(rest.is_some())));
            }
            TupleStruct(ref q, pats, dd) => {
                let mut r = vec![];
                self.qpath(q, p.hir_id, &mut r);
                o.push(("k", s("PTupleStruct")));
                o.push(("res", J::Obj(r)));
                let ps: Vec<J> = pats.iter().map(|x| self.pat(x)).collect();
                o.push(("ps", J::Arr(ps)));
                if let Some(pos) = dd.as_opt_usize() {
                    o.push(("dd", n(pos)));
                }
            }
            Or(pats) => {
                o.push(("k", s("POr")));
                let ps: Vec<J> = pats.iter().map(|x| self.pat(x)).collect();
                o.push(("ps", J::Arr(ps)));
            }
            Tuple(pats, dd) => {
                o.push(("k", s("PTuple")));
                let ps: Vec<J> = pats.iter().map(|x| self.pat(x)).collect();
                o.push(("ps", J::Arr(ps)));
                if let Some(pos) = dd.as_opt_usize() {
                    o.push(("dd", n(pos)));
                }
            }
            Box(x) | Deref(x) | Ref(x, _, _) => {
                o.push(("k", s("PRef")));
                let pj = self.pat(x);
                o.push(("p", pj));
            }
            Expr(pe) => self.pat_expr(pe, &mut o),
            Guard(x, e) => {
                o.push(("k", s("PGuard")));
                let pj = self.pat(x);
                o.push(("p", pj));
                let ej = self.expr(e);
                o.push(("e", ej));
            }
            Range(lo, hi, end) => {
                o.push(("k", s("PRange")));
                if let Some(lo) = lo {
                    let mut r = vec![];
                    self.pat_expr(lo, &mut r);
                    o.push(("lo", J::Obj(r)));
                }
                if let Some(hi) = hi {
                    let mut r = vec![];
                    self.pat_expr(hi, &mut r);
                    o.push(("hi", J::Obj(r)));
                }
                o.push(("end", s(format!("{:?}", end))));
            }
            Slice(a, m, b) => {
                o.push(("k", s("PSlice")));
                let mut ps: Vec<J> = a.iter().map(|x| self.pat(x)).collect();
                if let Some(m) = m {
                    ps.push(self.pat(m));
                }
                ps.extend(b.iter().map(|x| self.pat(x)));
                o.push(("ps", J::Arr(ps)));
            }
            Err(_) => o.push(("k", s("PErr"))),
        }
        J::Obj(o)
    }

    fn pat_expr(&mut self, pe: &hir::PatExpr<'tcx>, o: &mut Vec<(&'static str, J)>) {
        match pe.kind {
            hir::PatExprKind::Lit { ref lit, negated } => {
                o.push(("k", s("PLit")));
                self.lit(lit, o);
                o.push(("neg", J::Bool(negated)));
            }
            hir::PatExprKind::Path(ref q) => {
                let mut r = vec![];
                self.qpath(q, pe.hir_id, &mut r);
                o.push(("k", s("PPath")));
                o.push(("res", J::Obj(r)));
            }
        }
    }

    fn block(&mut self, b: &hir::Block<'tcx>) -> J {
        let mut stmts = vec![];
        for st in b.stmts {
            match st.kind {
                hir::StmtKind::Let(l) => {
                    let mut o: Vec<(&'static str, J)> = vec![("k", s("Let"))];
                    let sp = self.d.span(st.span);
                    o.push(("s", sp));
                    let pj = self.pat(l.pat);
                    o.push(("pat", pj));
                    if let Some(i) = l.init {
                        let ij = self.expr(i);
                        o.push(("init", ij));
                    }
                    if let Some(e) = l.els {
                        let ej = self.block(e);
                        o.push(("els", ej));
                    }
                    stmts.push(J::Obj(o));
                }
                hir::StmtKind::Item(_) => {}
                hir::StmtKind::Expr(e) => {
                    let ej = self.expr(e);
                    stmts.push(J::Obj(vec![("k", s("ExprStmt")), ("e", ej)]));
                }
                hir::StmtKind::Semi(e) => {
                    let ej = self.expr(e);
                    stmts.push(J::Obj(vec![("k", s("Semi")), ("e", ej)]));
                }
            }
        }
        let mut o: Vec<(&'static str, J)> = vec![("k", s("Block"))];
        let sp = self.d.span(b.span);
        o.push(("s", sp));
        if let Some(m) = self.macro_of(b.span) {
            o.push(("m", n(m)));
        }
        o.push(("stmts", J::Arr(stmts)));
        if let Some(e) = b.expr {
            let ej = self.expr(e);
            o.push(("tail", ej));
        }
        J::Obj(o)
    }

    fn callee_info(
        &mut self,
        def: DefId,
        hir_id: HirId,
        o: &mut Vec<(&'static str, J)>,
    ) {
        let tcx = self.d.tcx;
        o.push(("callee", s(self.d.path(def))));
        if let Some(tr) = tcx.trait_of_assoc(def) {
            o.push(("trait", s(self.d.path(tr))));
        }
        let args = self.typeck.node_args(hir_id);
        if !args.is_empty() {
            o.push(("gargs", s(with_no_trimmed_paths!(format!("{:?}", args)))));
        }
        if matches!(tcx.def_kind(def), DefKind::Fn | DefKind::AssocFn) &&
            !args.has_infer() &&
            !args.has_escaping_bound_vars() &&
            tcx.generics_of(def).count() == args.len()
        {
            let env = ty::TypingEnv::post_analysis(tcx, self.owner.to_def_id());
            if let Ok(Some(inst)) = ty::Instance::try_resolve(tcx, env, def, args) {
                let rd = inst.def_id();
                if rd != def {
                    o.push(("resolved", s(self.d.path(rd))));
                }
            }
        }
    }

    fn expr(&mut self, e: &hir::Expr<'tcx>) -> J {
        use hir::ExprKind::*;
        // transparent wrappers
        match e.kind {
            DropTemps(inner) | Use(inner, _) => return self.expr(inner),
            _ => {}
        }
        let mut o: Vec<(&'static str, J)> = vec![];
        match e.kind {
            ConstBlock(ref cb) => {
                o.push(("k", s("ConstBlock")));
                let body = self.d.tcx.hir_body(cb.body);
                let ej = self.expr(body.value);
                o.push(("e", ej));
            }
            Array(es) | Tup(es) => {
                o.push(("k", s(if matches!(e.kind, Array(_)) { "Array" } else { "Tup" })));
                let v: Vec<J> = es.iter().map(|x| self.expr(x)).collect();
                o.push(("es", J::Arr(v)));
            }
            Call(f, args) => {
                o.push(("k", s("Call")));
                // resolved callee when the callee expression is a path to a fn
                let mut done = false;
                if let Path(ref q) = f.kind {
                    let res = self.typeck.qpath_res(q, f.hir_id);
                    if let Res::Def(dk, did) = res {
                        if matches!(dk, DefKind::Fn | DefKind::AssocFn) {
                            self.callee_info(did, f.hir_id, &mut o);
                            done = true;
                        } else if let DefKind::Ctor(..) = dk {
                            o.push(("ctor", s(self.d.path(did))));
                            let p = self.d.tcx.parent(did);
                            o.push(("ctor_of", s(self.d.path(p))));
                            done = true;
                        }
                    }
                }
                if !done {
                    let fj = self.expr(f);
                    o.push(("f", fj));
                } else if let Some(m) = self.macro_of(f.span) {
                    o.push(("fm", n(m)));
                }
                let v: Vec<J> = args.iter().map(|x| self.expr(x)).collect();
                o.push(("args", J::Arr(v)));
            }
            MethodCall(seg, recv, args, _) => {
                o.push(("k", s("MCall")));
                o.push(("name", s(seg.ident.name.to_string())));
                if let Some(def) = self.typeck.type_dependent_def_id(e.hir_id) {
                    self.callee_info(def, e.hir_id, &mut o);
                }
                let rt = self.typeck.expr_ty_adjusted(recv).peel_refs();
                let rtj = self.d.ty(rt);
                o.push(("rt", rtj));
                let rj = self.expr(recv);
                o.push(("recv", rj));
                let v: Vec<J> = args.iter().map(|x| self.expr(x)).collect();
                o.push(("args", J::Arr(v)));
                let sp = self.d.span(seg.ident.span);
                o.push(("ns", sp));
            }
            Binary(op, l, r) => {
                o.push(("k", s("Binary")));
                o.push(("op", s(op.node.as_str())));
                let lj = self.expr(l);
                let rj = self.expr(r);
                o.push(("l", lj));
                o.push(("r", rj));
                if let Some(def) = self.typeck.type_dependent_def_id(e.hir_id) {
                    o.push(("callee", s(self.d.path(def))));
                }
            }
            Unary(op, x) => {
                o.push(("k", s("Unary")));
                o.push(("op", s(op.as_str())));
                let xj = self.expr(x);
                o.push(("e", xj));
            }
            Lit(ref l) => {
                o.push(("k", s("Lit")));
                self.lit(l, &mut o);
            }
            Cast(x, _) | Type(x, _) => {
                o.push(("k", s("Cast")));
                let xj = self.expr(x);
                o.push(("e", xj));
            }
            Let(l) => {
                o.push(("k", s("LetCond")));
                let pj = self.pat(l.pat);
                o.push(("pat", pj));
                let ij = self.expr(l.init);
                o.push(("init", ij));
            }
            If(c, t, el) => {
                o.push(("k", s("If")));
                let cj = self.expr(c);
                let tj = self.expr(t);
                o.push(("cond", cj));
                o.push(("then", tj));
                if let Some(el) = el {
                    let ej = self.expr(el);
                    o.push(("else", ej));
                }
            }
            Loop(b, _, src, _) => {
                o.push(("k", s("Loop")));
                o.push(("src", s(format!("{:?}", src))));
                let bj = self.block(b);
                o.push(("body", bj));
            }
            Match(scrut, arms, src) => {
                let srcname = match src {
                    hir::MatchSource::Normal | hir::MatchSource::Postfix => "match",
                    hir::MatchSource::ForLoopDesugar => "for",
                    hir::MatchSource::TryDesugar(_) => "try",
                    hir::MatchSource::AwaitDesugar => "await",
                    hir::MatchSource::FormatArgs => "fmt",
                };
                o.push(("k", s("Match")));
                o.push(("src", s(srcname)));
                let sj = self.expr(scrut);
                o.push(("scrut", sj));
                let mut av = vec![];
                for a in arms {
                    let mut ao: Vec<(&'static str, J)> = vec![];
                    let sp = self.d.span(a.span);
                    ao.push(("s", sp));
                    let pj = self.pat(a.pat);
                    ao.push(("pat", pj));
                    if let Some(g) = a.guard {
                        let gj = self.expr(g);
                        ao.push(("guard", gj));
                    }
                    let bj = self.expr(a.body);
                    ao.push(("body", bj));
                    av.push(J::Obj(ao));
                }
                o.push(("arms", J::Arr(av)));
            }
            Closure(c) => {
                o.push(("k", s("Closure")));
                o.push(("def", s(self.d.path(c.def_id.to_def_id()))));
                let body = self.d.tcx.hir_body(c.body);
                let ps: Vec<J> = body.params.iter().map(|p| self.pat(p.pat)).collect();
                o.push(("params", J::Arr(ps)));
                let bj = self.expr(body.value);
                o.push(("body", bj));
            }
            Block(b, _) => {
                return self.block_expr(b, e);
            }
            Assign(l, r, _) => {
                o.push(("k", s("Assign")));
                let lj = self.expr(l);
                let rj = self.expr(r);
                o.push(("l", lj));
                o.push(("r", rj));
            }
            AssignOp(op, l, r) => {
                o.push(("k", s("AssignOp")));
                o.push(("op", s(op.node.as_str())));
                let lj = self.expr(l);
                let rj = self.expr(r);
                o.push(("l", lj));
                o.push(("r", rj));
            }
            Field(base, ident) => {
                o.push(("k", s("Field")));
                o.push(("f", s(ident.name.to_string())));
                let bt = self.typeck.expr_ty_adjusted(base).peel_refs();
                if let ty::Adt(adt, _) = bt.kind() {
                    o.push(("adt", s(self.d.path(adt.did()))));
                }
                let bj = self.expr(base);
                o.push(("base", bj));
            }
            Index(b, i, _) => {
                o.push(("k", s("Index")));
                let bj = self.expr(b);
                let ij = self.expr(i);
                o.push(("base", bj));
                o.push(("idx", ij));
                if let Some(def) = self.typeck.type_dependent_def_id(e.hir_id) {
                    o.push(("callee", s(self.d.path(def))));
                }
            }
            Path(ref q) => {
                self.qpath(q, e.hir_id, &mut o);
            }
            AddrOf(_, m, x) => {
                o.push(("k", s("AddrOf")));
                o.push(("mut", J::Bool(m.is_mut())));
                let xj = self.expr(x);
                o.push(("e", xj));
            }
            Break(_, x) => {
                o.push(("k", s("Break")));
                if let Some(x) = x {
                    let xj = self.expr(x);
                    o.push(("e", xj));
                }
            }
            Continue(_) => o.push(("k", s("Continue"))),
            Ret(x) => {
                o.push(("k", s("Ret")));
                if let Some(x) = x {
                    let xj = self.expr(x);
                    o.push(("e", xj));
                }
            }
            Become(x) => {
                o.push(("k", s("Ret")));
                let xj = self.expr(x);
                o.push(("e", xj));
            }
            Struct(q, fields, tail) => {
                o.push(("k", s("Struct")));
                let mut r = vec![];
                self.qpath(q, e.hir_id, &mut r);
                o.push(("res", J::Obj(r)));
                let t = self.typeck.expr_ty(e);
                if let ty::Adt(adt, _) = t.kind() {
                    o.push(("adt", s(self.d.path(adt.did()))));
                }
                let fs: Vec<J> = fields
                    .iter()
                    .map(|f| {
                        let ej = self.expr(f.expr);
                        J::Obj(vec![("f", s(f.ident.name.to_string())), ("e", ej)])
                    })
                    .collect();
                o.push(("fs", J::Arr(fs)));
                if let hir::StructTailExpr::Base(b) = tail {
                    let bj = self.expr(b);
                    o.push(("base", bj));
                }
            }
            Repeat(x, _) => {
                o.push(("k", s("Repeat")));
                let xj = self.expr(x);
                o.push(("e", xj));
            }
            Yield(x, _) => {
                o.push(("k", s("Yield")));
                let xj = self.expr(x);
                o.push(("e", xj));
            }
            InlineAsm(_) => o.push(("k", s("InlineAsm"))),
            OffsetOf(..) => o.push(("k", s("OffsetOf"))),
            UnsafeBinderCast(_, x, _) => {
                o.push(("k", s("Cast")));
                let xj = self.expr(x);
                o.push(("e", xj));
            }
            Err(_) => o.push(("k", s("Err"))),
            DropTemps(_) | Use(..) => unreachable!(),
        }
        self.finish(e, o)
    }

    fn finish(&mut self, e: &hir::Expr<'tcx>, mut o: Vec<(&'static str, J)>) -> J {
        let sp = self.d.span(e.span);
        o.push(("s", sp));
        if let Some(m) = self.macro_of(e.span) {
            o.push(("m", n(m)));
        }
        if let Some(t) = self.typeck.expr_ty_opt(e) {
            let tj = self.d.ty(t);
            o.push(("t", tj));
        }
        let adj = self.typeck.expr_adjustments(e);
        if !adj.is_empty() {
            // record overloaded derefs (Deref::deref calls hidden in adjustments)
            let over = adj.iter().any(|a| {
                matches!(
                    a.kind,
                    ty::adjustment::Adjust::Deref(ty::adjustment::DerefAdjustKind::Overloaded(_))
                )
            });
            if over {
                o.push(("oderef", J::Bool(true)));
            }
        }
        J::Obj(o)
    }

    fn block_expr(&mut self, b: &hir::Block<'tcx>, e: &hir::Expr<'tcx>) -> J {
        let bj = self.block(b);
        if let J::Obj(mut o) = bj {
            if let Some(t) = self.typeck.expr_ty_opt(e) {
                let tj = self.d.ty(t);
                o.push(("t", tj));
            }
            if matches!(b.rules, hir::BlockCheckMode::UnsafeBlock(_)) {
                o.push(("unsafe", J::Bool(true)));
            }
            J::Obj(o)
        } else {
            unreachable!()
        }
    }
}
