#!/usr/bin/env python3
"""mk_seed_tasks.py <outdir>: write <outdir>/<Cnn>.task.md for a further seeding round: the generic brief (TASK.md in <outdir>),
the text of ONE property, and the list of ideas earlier rounds already used (taken from the agents' own READMEs under seeded/).
Nothing else from /verif goes into a task file."""
import json
import os
import re
import sys

V = os.path.dirname(os.path.dirname(os.path.abspath(__file__)))
out = sys.argv[1]
brief = open(os.path.join(out, "TASK.md")).read()
props = [json.loads(l) for l in open(os.path.join(V, "properties.jsonl"))]
for p in props:
    pid = p["id"]
    txt = brief.rstrip() + "\n" + "%s — %s\n\nSTATEMENT: %s\n\nQUANTIFIED OVER: %s\n\nWHY THE EXISTING TESTS CANNOT SETTLE IT: %s\n\nMECHANISMS IN THE CODE MEANT TO MAKE IT HOLD:\n" % (
        pid, p["title"], p["statement"], p["quantifier"]["text"], p["why_tests_cant"])
    for m in p["anchors"]["mechanism"]:
        txt += "  - %s (%s)\n" % (m["name"], m["where"])
    txt += "\n## Already explored (do NOT reuse these ideas, files+functions or mechanisms; find different ones, preferably in mechanisms not touched yet)\n"
    for sid in sorted(os.listdir(os.path.join(V, "seeded"))):
        mp = os.path.join(V, "seeded", sid, "meta.json")
        if not os.path.exists(mp):
            continue
        meta = json.load(open(mp))
        if meta["property"] != pid:
            continue
        readme = open(os.path.join(V, "seeded", sid, "README.md")).read()
        files = sorted(set(re.findall(r"^\+\+\+ b/(\S+)", open(os.path.join(V, "seeded", sid, "patch.diff")).read(), re.M)))
        name = re.sub(r"^C\d+b?-", "", sid)
        # first descriptive paragraph of the agent's README
        paras = [x.strip() for x in re.split(r"\n\s*\n", readme) if x.strip() and not x.strip().startswith("#")]
        first = re.sub(r"\s+", " ", paras[0])[:260] if paras else ""
        txt += "  * %s (%s): %s\n" % (name, ", ".join(files), first)
    open(os.path.join(out, pid + ".task.md"), "w").write(txt)
    print(pid, len(txt))
