#!/usr/bin/env python3
"""Apply frozen mutants / benign variants to scratch copies of /repo and re-run the checks.

  selftest/mutants.py [--prop Cnn] [--id name] [-j N] [--keep]

fixtures/mutants/<Cnn>.json : [{"id":..., "expect": "<rule id>" | "silent", "edits":[{"file":..., "find":..., "replace":..., "count":1}], "note":...}]
A mutant must still type-check; the named rule must report a VIOLATION.  A benign variant
(expect = "silent") must leave the check at exit 0.  Scratch copies live outside /repo and
/verif and are removed as each run finishes.
"""
import argparse
import concurrent.futures as cf
import json
import os
import shutil
import subprocess
import sys
import tempfile

VERIF = os.path.dirname(os.path.dirname(os.path.abspath(__file__)))
REPO = "/repo"


def run_one(prop, m, keep=False):
    scratch = tempfile.mkdtemp(prefix="bgv-mut-")
    try:
        tree = os.path.join(scratch, "repo")
        subprocess.check_call(["rsync", "-a", "--exclude", "target", "--exclude", ".git", REPO + "/", tree + "/"])
        for e in m["edits"]:
            p = os.path.join(tree, e["file"])
            s = open(p).read()
            n = s.count(e["find"])
            want = e.get("count", 1)
            if n != want:
                return (prop, m["id"], "BROKEN-FIXTURE", "`find` text occurs %d times in %s, expected %d" % (n, e["file"], want))
            s = s.replace(e["find"], e["replace"])
            open(p, "w").write(s)
        env = dict(os.environ, BGV_REPO=tree, BGV_EVIDENCE_DIR=os.path.join(scratch, "evidence"))
        r = subprocess.run([os.path.join(VERIF, "bin", "check"), prop, m.get("tier", "quick")], env=env, cwd=VERIF,
                           stdout=subprocess.PIPE, stderr=subprocess.STDOUT, text=True)
        out = r.stdout
        if "the tree does not compile" in out or "does not compile as a stand-alone crate" in out:
            return (prop, m["id"], "NO-COMPILE", out[-1500:])
        if m["expect"] == "silent":
            ok = r.returncode == 0 and "VIOLATION" not in out
            return (prop, m["id"], "ok-silent" if ok else "FALSE-ALARM", "" if ok else out[-2500:])
        fired = r.returncode == 1 and ("VIOLATION property=%s" % prop) in out
        named = any(line.strip().startswith(m["expect"] + " ") for line in out.splitlines())
        if fired and named:
            return (prop, m["id"], "ok-caught", "")
        return (prop, m["id"], "MISSED" if not fired else "WRONG-RULE", out[-2500:])
    finally:
        if not keep:
            shutil.rmtree(scratch, ignore_errors=True)


def main():
    ap = argparse.ArgumentParser()
    ap.add_argument("--prop")
    ap.add_argument("--id")
    ap.add_argument("-j", type=int, default=4)
    ap.add_argument("--keep", action="store_true")
    ap.add_argument("--sample", type=int, default=0, help="run only N fixtures per property, chosen by --seed")
    ap.add_argument("--seed", type=int, default=0)
    a = ap.parse_args()
    jobs = []
    d = os.path.join(VERIF, "fixtures", "mutants")
    for f in sorted(os.listdir(d)):
        if not f.endswith(".json"):
            continue
        prop = f[:-5]
        if a.prop and a.prop != prop:
            continue
        ms = [m for m in json.load(open(os.path.join(d, f))) if not (a.id and a.id != m["id"])]
        if a.sample and len(ms) > a.sample:
            import random
            rnd = random.Random(a.seed)
            ms = rnd.sample(ms, a.sample)
        for m in ms:
            jobs.append((prop, m))
    bad = 0
    with cf.ThreadPoolExecutor(a.j) as ex:
        for prop, mid, verdict, detail in ex.map(lambda j: run_one(j[0], j[1], a.keep), jobs):
            print("%-4s %-40s %s" % (prop, mid, verdict))
            if not verdict.startswith("ok"):
                bad += 1
                print("      " + detail.replace("\n", "\n      "))
    print("%d mutants/variants, %d not as expected" % (len(jobs), bad))
    return 1 if bad else 0


if __name__ == "__main__":
    sys.exit(main())
