#!/usr/bin/env python3
"""Run the checks against the independently produced property-breaking changes kept under /verif/seeded/<id>/.

  selftest/seeded.py [--id name] [-j N] [--all-props]

Each change (patch.diff against /repo's HEAD at the time it was produced, a demonstration and meta.json) is applied to a
scratch copy of /repo (never to /repo itself); the quick check of the property it breaks is run there.  With --all-props
every claimed check is run (to see which other properties notice).  Prints one line per change.
"""
import argparse
import concurrent.futures as cf
import json
import os
import shutil
import subprocess
import sys
import tempfile

VERIF = os.path.dirname(os.path.dirname(os.path.abspath(__file__)))


def run_one(sid, all_props):
    d = os.path.join(VERIF, "seeded", sid)
    meta = json.load(open(os.path.join(d, "meta.json")))
    scratch = tempfile.mkdtemp(prefix="bgv-seed-")
    try:
        tree = os.path.join(scratch, "repo")
        subprocess.check_call(["rsync", "-a", "--exclude", "target", "--exclude", ".git", "/repo/", tree + "/"])
        r = subprocess.run(["patch", "-p1", "--no-backup-if-mismatch", "-i", os.path.join(d, "patch.diff")], cwd=tree,
                           stdout=subprocess.PIPE, stderr=subprocess.STDOUT, text=True)
        if r.returncode != 0:
            return sid, meta["property"], "PATCH-DOES-NOT-APPLY", r.stdout[-400:]
        props = [meta["property"]]
        if all_props:
            props = [c["property_id"] for c in json.load(open(os.path.join(VERIF, "MANIFEST.json")))["checks"]]
        env = dict(os.environ, BGV_REPO=tree, BGV_EVIDENCE_DIR=os.path.join(scratch, "evidence"))
        caught = {}
        for p in props:
            rr = subprocess.run([os.path.join(VERIF, "bin", "check"), p, "quick"], env=env, cwd=VERIF, stdout=subprocess.PIPE,
                                stderr=subprocess.STDOUT, text=True)
            if "does not compile" in rr.stdout:
                return sid, meta["property"], "NO-COMPILE", rr.stdout[-600:]
            if rr.returncode == 1 and "VIOLATION property=%s" % p in rr.stdout:
                rules = sorted({l.split()[0] for l in rr.stdout.splitlines() if l.startswith("  R") and ":" in l})
                caught[p] = rules
            elif rr.returncode not in (0, 1):
                caught[p] = ["TOOL-ERROR"]
        own = caught.get(meta["property"])
        return sid, meta["property"], ("caught " + ",".join(own)) if own else "MISSED", json.dumps({k: v for k, v in caught.items() if k != meta["property"]}) if len(caught) > (1 if own else 0) else ""
    finally:
        shutil.rmtree(scratch, ignore_errors=True)


def main():
    ap = argparse.ArgumentParser()
    ap.add_argument("--id")
    ap.add_argument("-j", type=int, default=6)
    ap.add_argument("--all-props", action="store_true")
    a = ap.parse_args()
    ids = sorted(x for x in os.listdir(os.path.join(VERIF, "seeded")) if os.path.isdir(os.path.join(VERIF, "seeded", x)))
    if a.id:
        ids = [a.id]
    missed = 0
    with cf.ThreadPoolExecutor(a.j) as ex:
        for sid, prop, verdict, extra in ex.map(lambda s: run_one(s, a.all_props), ids):
            print("%-34s %-4s %s %s" % (sid, prop, verdict, extra))
            if not verdict.startswith("caught"):
                missed += 1
    print("%d seeded changes, %d not caught" % (len(ids), missed))


if __name__ == "__main__":
    main()
