#!/usr/bin/env python3
"""rename_locals.py [--keep]: robustness experiment — rename every let-bound local of crate bindgen whose name is not also a field, function,
method, parameter-of-a-public-API or macro-visible name to `<name>_rn`, in a scratch copy, and run every property's quick check there.
A behaviour-preserving edit: every check has to stay silent.  Prints the checks that are not."""
import json
import os
import re
import subprocess
import sys
import tempfile
import shutil

V = os.path.dirname(os.path.dirname(os.path.abspath(__file__)))
sys.path.insert(0, os.path.join(V, "rules"))
import facts
from hir import Program

f, _ = facts.load("cli")
prog = Program(f)
locals_, taken = {}, set()
for a in f["adts"]:
    for v in a.get("variants", []):
        for fl in v.get("fields", []):
            taken.add(fl["name"])
        taken.add(v.get("name") or v.get("path", "").split("::")[-1])
for p, b in prog.bodies.items():
    for seg in re.split(r"[:<>, ]+", p):
        taken.add(seg)
    for lid, d in b.local_def.items():
        nm = d[2].get("name")
        if not nm:
            continue
        if d[0][0] == "param":
            taken.add(nm)
        elif b.file.startswith("bindgen/") and not b.macro_name(d[2]):
            locals_.setdefault(nm, 0)
            locals_[nm] += 1
for n in prog.bodies.values():
    for c in n.nodes:
        if c["k"] == "MCall":
            taken.add(c.get("name"))
        if c["k"] == "Field":
            taken.add(c.get("f"))
KEYWORDS = {"self", "super", "crate", "type", "match", "where", "result", "value", "other", "error"}
names = sorted(nm for nm in locals_ if nm not in taken and nm not in KEYWORDS and len(nm) >= 5 and re.fullmatch(r"[a-z_][a-z0-9_]*", nm))
S = tempfile.mkdtemp(prefix="bgv-rn-", dir="/tmp")
repo = os.path.join(S, "repo")
subprocess.check_call(["rsync", "-a", "--exclude", "target", "--exclude", ".git", "/repo/", repo + "/"])
# identifiers that occur in the sources in any role other than a plain identifier use are left alone: string literals, macro_rules bodies
srcs = []
for top in ("bindgen",):
    for root, dirs, files in os.walk(os.path.join(repo, top)):
        for fn in files:
            if fn.endswith(".rs"):
                srcs.append(os.path.join(root, fn))
text = {p: open(p).read() for p in srcs}
alltext = "\n".join(text.values())
safe = []
for nm in names:
    # skip names that appear inside string literals / as struct-literal shorthand fields / in macro_rules patterns ($name)
    if re.search(r'"[^"\n]*\b%s\b[^"\n]*"' % re.escape(nm), alltext) or re.search(r"\$%s\b" % re.escape(nm), alltext):
        continue
    if re.search(r"\b(fn|struct|enum|mod|trait|const|static|type)\s+%s\b" % re.escape(nm), alltext) or re.search(r"\.%s\b" % re.escape(nm), alltext) or \
            re.search(r"\b%s\s*:" % re.escape(nm) + r"(?!:)", alltext) and re.search(r"\b%s\s*:\s*[A-Z&\[(a-z]" % re.escape(nm), alltext) and \
            re.search(r"(pub|pub\(crate\))\s+%s\s*:" % re.escape(nm), alltext):
        continue
    if re.search(r"::%s\b" % re.escape(nm), alltext):
        continue
    safe.append(nm)
env = dict(os.environ, CARGO_NET_OFFLINE="true")
for attempt in range(8):
    rx = re.compile(r"(?<![A-Za-z0-9_.])(%s)(?![A-Za-z0-9_])" % "|".join(map(re.escape, safe)))
    for p, t in text.items():
        open(p, "w").write(rx.sub(lambda m: m.group(1) + "_rn", t))
    r = subprocess.run(["cargo", "check", "--offline", "-p", "bindgen-cli"], cwd=repo, env=env, stdout=subprocess.PIPE, stderr=subprocess.STDOUT, text=True)
    if r.returncode == 0:
        break
    # names that are also fields of foreign structs (shorthand patterns / literals), labels etc.: leave those alone and retry
    culprits = set(re.findall(r"`([a-z_][a-z0-9_]*)_rn`", r.stdout))
    if not culprits:
        print("renamed tree does not build:\n" + r.stdout[-1500:])
        if "--keep" not in sys.argv:
            shutil.rmtree(S, ignore_errors=True)
        sys.exit(2)
    safe = [n for n in safe if n not in culprits]
else:
    print("renamed tree still does not build after 8 attempts")
    sys.exit(2)
print("renamed %d local names (of %d candidates) in %s" % (len(safe), len(names), repo))
bad = 0
for prop in open(os.path.join(V, "rules", "READY")).read().split():
    rr = subprocess.run([os.path.join(V, "bin", "check"), prop, "quick"], env=dict(env, BGV_REPO=repo, BGV_EVIDENCE_DIR=os.path.join(S, "ev"), BGV_NO_SELFTEST="1"),
                        stdout=subprocess.PIPE, stderr=subprocess.STDOUT, text=True)
    lines = [l for l in rr.stdout.splitlines() if re.match(r"^  R|^TOOL|^C\d+ quick", l)]
    summ = [l for l in lines if l.startswith(prop)]
    print(summ[0] if summ else prop + " ?")
    if rr.returncode != 0:
        bad += 1
        for l in lines:
            if not l.startswith(prop):
                print("   ", l[:200])
if "--keep" not in sys.argv:
    shutil.rmtree(S, ignore_errors=True)
print("%d check(s) not silent" % bad)
sys.exit(1 if bad else 0)
