#!/bin/bash
# confirm_seed.sh <worktree> <i> <property> <seed-id>
# Confirms an independently produced change in its own scratch worktree (never in /repo):
#   with the patch: builds, the demonstration FAILS, the unedited test suite still gives 690 passed / 3 known failures;
#   without it: the demonstration PASSES.
# On success copies patch.diff, the demonstration and README into /verif/seeded/<seed-id>/ and writes meta.json.
set -u
WT=$1; I=$2; PROP=$3; SID=$4
S=$WT/SEED/$I
LOG=$S/confirm.log
cd "$WT" || exit 2
git checkout -q -- . 2>/dev/null
{
echo "== confirm $SID ($PROP) in $WT"
git apply --check "$S/patch.diff" || { echo "RESULT patch does not apply"; exit 1; }
git apply "$S/patch.diff"
rm -f target/.rustc_info.json; cargo build --offline -p bindgen-cli < /dev/null 2>&1 | tail -1
rm -f target/.rustc_info.json
bash "$S/demo.sh" < /dev/null > "$S/demo.with.log" 2>&1; DW=$?
echo "demo with change: exit $DW"
rm -f target/.rustc_info.json   # a demo that pipes into cargo can leave a failed rustc probe cached
cargo nextest run --workspace --no-fail-fast --tool-config-file pb:/w/lib/nextest.toml --profile pb --test-threads 6 --offline < /dev/null > "$S/nextest.confirm.log" 2>&1
if ! grep -q "Summary" "$S/nextest.confirm.log"; then
  # cargo's rustc probe occasionally reads garbage from an inherited descriptor; the failure is cached.  Forget it and try once more.
  rm -f target/.rustc_info.json
  cargo metadata --format-version=1 --offline < /dev/null > /dev/null 2>&1
  cargo nextest run --workspace --no-fail-fast --tool-config-file pb:/w/lib/nextest.toml --profile pb --test-threads 6 --offline < /dev/null > "$S/nextest.confirm.log" 2>&1
fi
SUMMARY=$(grep -E "Summary" "$S/nextest.confirm.log" | tail -1)
FAILS=$(grep -E "^\s+FAIL" "$S/nextest.confirm.log" | awk '{print $NF}' | sort -u | tr '\n' ' ')
echo "suite with change: $SUMMARY | failing: $FAILS"
git checkout -q -- .
rm -f target/.rustc_info.json; cargo build --offline -p bindgen-cli < /dev/null 2>&1 | tail -1
rm -f target/.rustc_info.json
bash "$S/demo.sh" < /dev/null > "$S/demo.without.log" 2>&1; DO=$?
echo "demo without change: exit $DO"
OK=no
if [ $DW -ne 0 ] && [ $DO -eq 0 ] && echo "$SUMMARY" | grep -q "690 passed, 3 failed" && [ "$FAILS" = "header_atomic_constant_h header_issue_753_h header_ptr32_has_different_size_h " ]; then OK=yes; fi
echo "RESULT confirmed=$OK"
if [ $OK = yes ]; then
  D=/verif/seeded/$SID
  mkdir -p "$D"
  cp "$S/patch.diff" "$S/demo.sh" "$S/README.md" "$D/"
  for f in "$S"/*; do case "$(basename $f)" in patch.diff|demo.sh|README.md|*.log|target|tmp|out) ;; *) [ -f "$f" ] && [ $(stat -c %s "$f") -lt 200000 ] && cp "$f" "$D/";; esac; done
  python3 - "$D" "$PROP" "$SID" "$SUMMARY" "$DW" "$DO" <<'PY'
import json,sys,re
d,prop,sid,summary,dw,do=sys.argv[1:]
readme=open(d+"/README.md").read()
json.dump({"id":sid,"property":prop,"produced_by":"independent sub-agent given only the property text and its own worktree",
 "needs_to_manifest":"see README.md",
 "confirmed":{"where":"scratch git worktree of /repo (removed afterwards)","build":"cargo build --offline -p bindgen-cli","suite_with_change":summary.strip(),
              "demo_with_change_exit":int(dw),"demo_without_change_exit":int(do)}},open(d+"/meta.json","w"),indent=1)
PY
fi
} > "$LOG" 2>&1
tail -1 "$LOG"
