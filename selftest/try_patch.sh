#!/bin/bash
# try_patch.sh <patch> <prop>... : apply a patch to a scratch copy of /repo and run the quick checks there
P=$1; shift
S=$(mktemp -d /tmp/bgv-try-XXXX)
rsync -a --exclude target --exclude .git /repo/ $S/repo/
(cd $S/repo && patch -p1 --no-backup-if-mismatch -i "$P" >/dev/null) || { echo "PATCH FAILED"; rm -rf $S; exit 2; }
for prop in "$@"; do
  BGV_REPO=$S/repo BGV_EVIDENCE_DIR=$S/ev /verif/bin/check $prop quick 2>&1 | grep -E "^  R|^C[0-9]+ quick|TOOL|the tree does not compile" | cut -c1-200
done
rm -rf $S
